#!/usr/bin/env python3
"""verify_seed.py <src-dir> <letter> <property> <seed-id>
Confirms a seeded change independently in a scratch worktree of /repo and stores it under /verif/seeded/<seed-id>/:
 - the demonstration passes on the unchanged tree,
 - with the change: go build, go vet and the full existing suite pass, and the demonstration fails.
"""
import json, os, re, shutil, subprocess, sys, glob, time

src, letter, prop, sid = sys.argv[1:5]
env = dict(os.environ, GOFLAGS="-mod=mod", GOPROXY="off")
env.pop("GOSUMDB", None); env.pop("GOTOOLCHAIN", None)
wt = "/tmp/wt/verify-" + sid

def sh(cmd, cwd=wt, timeout=1800):
    p = subprocess.run(cmd, shell=True, cwd=cwd, env=env, stdout=subprocess.PIPE, stderr=subprocess.STDOUT, timeout=timeout)
    return p.returncode, p.stdout.decode("utf-8", "replace")

subprocess.run("git -C /repo worktree remove --force %s 2>/dev/null; git -C /repo worktree add -q --detach %s HEAD" % (wt, wt), shell=True, check=True)
try:
    diff = os.path.join(src, letter + ".diff")
    demos = [f for f in glob.glob(os.path.join(src, letter + "_demo*")) + glob.glob(os.path.join(src, "*_" + letter + "_demo*"))]
    assert demos, "no demo"
    demo = demos[0]
    ran = []
    if demo.endswith(".go"):
        text = open(demo).read()
        m = re.search(r"((?:internal|cmd)/[a-z_/]+[a-z])", text[:1500])
        pkgdir = m.group(1).rstrip("/")
        if pkgdir.endswith(".go"):
            pkgdir = os.path.dirname(pkgdir)
        if not os.path.isdir(os.path.join(wt, pkgdir)):
            pkgdir = os.path.dirname(pkgdir)
        m2 = re.search(r"-run '([^']+)'", text[:2500]) or re.search(r"-run (Test\w+)", text[:2500])
        runpat = m2.group(1) if m2 else "Demo"
        dst = os.path.join(wt, pkgdir, "zz_seed_demo_test.go")
        democmd = "go test -vet=off -count=1 -run '%s' ./%s/" % (runpat, pkgdir)
        shutil.copy(demo, dst)
    else:
        raise SystemExit("unsupported demo type " + demo)
    rc0, out0 = sh(democmd)
    ran.append({"cmd": "unchanged tree: " + democmd, "exit": rc0, "ok_expected": "pass"})
    os.remove(dst)
    rc, out = sh("git apply --whitespace=nowarn " + diff)
    assert rc == 0, "patch does not apply: " + out
    rcb, outb = sh("go build ./... && go vet ./...")
    ran.append({"cmd": "with change: go build ./... && go vet ./...", "exit": rcb})
    rcs, outs = sh("go test -vet=off -count=1 ./...")
    ran.append({"cmd": "with change: go test -vet=off -count=1 ./...", "exit": rcs})
    shutil.copy(demo, dst)
    rc1, out1 = sh(democmd)
    ran.append({"cmd": "with change: " + democmd, "exit": rc1, "ok_expected": "fail"})
    ok = rc0 == 0 and rcb == 0 and rcs == 0 and rc1 != 0 and "FAIL" in out1 and ("[build failed]" not in out1 or os.environ.get("VERIFY_ALLOW_BUILD_FAILED"))
    print(sid, "CONFIRMED" if ok else "NOT CONFIRMED", [r["exit"] for r in ran])
    if not ok:
        print(out0[-1500:] if rc0 else "", outb[-1500:] if rcb else "", outs[-1500:] if rcs else "", out1[-800:])
    if ok:
        d = os.path.join("/verif/seeded", sid)
        os.makedirs(d, exist_ok=True)
        shutil.copy(diff, os.path.join(d, "patch.diff"))
        shutil.copy(demo, os.path.join(d, "demo_test.go"))
        notes = open(os.path.join(src, letter + ".md")).read() if os.path.exists(os.path.join(src, letter + ".md")) else ""
        meta = {
            "id": sid, "breaks_property": prop,
            "origin": "written by an independent sub-agent that saw only the property text and its own worktree of /repo",
            "demo": {"file": "demo_test.go", "copy_to": pkgdir, "run": democmd},
            "needs_to_manifest": "", "confirmed_by_me": ran,
            "author_notes": notes,
            "checks_run": [],
        }
        mp = os.path.join(d, "meta.json")
        if os.path.exists(mp):
            old = json.load(open(mp)); meta["checks_run"] = old.get("checks_run", []); meta["needs_to_manifest"] = old.get("needs_to_manifest", "")
        json.dump(meta, open(mp, "w"), indent=1)
finally:
    subprocess.run("git -C /repo worktree remove --force %s" % wt, shell=True)
