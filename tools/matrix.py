#!/usr/bin/env python3
"""matrix.py <out.json> [seed-id ...]: runs every claimed check (quick tier) against every seeded change, each applied to a private
copy of the repository (never /repo itself), and records which checks report a violation.
Environment: VP_RUN_REPO (snapshot of /repo's HEAD, from `vp run --with-repo`) or /repo is used as the pristine source."""
import json, os, shutil, subprocess, sys, tempfile, time, concurrent.futures as cf

V = os.path.dirname(os.path.dirname(os.path.abspath(__file__)))
SRC = os.environ.get("VP_RUN_REPO") or "/repo"
out_path = sys.argv[1]
checks = sorted(json.load(open(os.path.join(V, "checks.json"))))
seeds = sys.argv[2:] or sorted(d for d in os.listdir(os.path.join(V, "seeded")) if os.path.isdir(os.path.join(V, "seeded", d)))
only = os.environ.get("MATRIX_CHECKS")
if only:
    checks = only.split(",")

def run_seed(sid):
    work = tempfile.mkdtemp(prefix="mx-" + sid + "-")
    res = {}
    try:
        repo = os.path.join(work, "repo")
        subprocess.run(["rsync", "-a", "--exclude", ".git", SRC + "/", repo + "/"], check=True)
        p = subprocess.run(["patch", "-p1", "-s", "-d", repo, "-i", os.path.join(V, "seeded", sid, "patch.diff")], stdout=subprocess.PIPE, stderr=subprocess.STDOUT)
        if p.returncode != 0:
            return sid, {"error": "patch does not apply: " + p.stdout.decode()[-300:]}
        vcopy = os.path.join(work, "verif")
        shutil.copytree(V, vcopy, ignore=shutil.ignore_patterns(".git", "evidence", "replays"))
        mine = checks
        if os.environ.get("MATRIX_OWN"):
            mine = [json.load(open(os.path.join(V, "seeded", sid, "meta.json")))["breaks_property"]]
        for c in mine:
            env = dict(os.environ, VERIF_REPO=repo, VERIF_SEED=os.environ.get("VERIF_SEED", "1"))
            t0 = time.time()
            q = subprocess.run([os.path.join(vcopy, "vcheck"), c, "quick"], cwd=vcopy, env=env, stdout=subprocess.PIPE, stderr=subprocess.STDOUT)
            txt = q.stdout.decode("utf-8", "replace")
            first = ""
            lines = txt.splitlines()
            for i, l in enumerate(lines):
                if l.startswith("VIOLATION"):
                    first = (lines[i + 1] if i + 1 < len(lines) else "").strip()[:200]
                    break
            res[c] = {"exit": q.returncode, "violations": sum(1 for l in lines if l.startswith("VIOLATION")), "first": first, "wall_s": round(time.time() - t0, 1)}
    finally:
        shutil.rmtree(work, ignore_errors=True)
    return sid, res

results = {}
if os.path.exists(out_path):
    results = json.load(open(out_path))
with cf.ThreadPoolExecutor(max_workers=int(os.environ.get("MATRIX_JOBS", "4"))) as ex:
    for sid, res in ex.map(run_seed, [s for s in seeds if s not in results]):
        results[sid] = res
        json.dump(results, open(out_path, "w"), indent=1)
        caught = [c for c, r in res.items() if isinstance(r, dict) and r.get("exit") == 1]
        print(sid, "caught by", caught, flush=True)
