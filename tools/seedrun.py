#!/usr/bin/env python3
"""seedrun.py <seed-id> <property> [tier]: applies /verif/seeded/<seed-id>/patch.diff to /repo, runs the check of <property>,
reverts /repo straight afterwards and records the outcome in the seed's meta.json.
With SEEDRUN_COPY=1 the change is applied to a private copy of /repo instead (VERIF_REPO)."""
import json, os, subprocess, sys, time
sid, prop = sys.argv[1], sys.argv[2]
tier = sys.argv[3] if len(sys.argv) > 3 else "quick"
d = os.path.join("/verif/seeded", sid)
copy = os.environ.get("SEEDRUN_COPY")
t0 = time.time()
if copy:
    # a private copy of /repo's working tree (used while other checks run against /repo itself)
    work = "/root/scratch/seed-" + sid
    subprocess.run("mkdir -p /root/scratch && rsync -a --delete --exclude .git /repo/ %s/ && cd %s && patch -p1 -s < %s/patch.diff" % (work, work, d), shell=True, check=True)
    try:
        p = subprocess.run(["/verif/vcheck", prop, tier], cwd="/verif", stdout=subprocess.PIPE, stderr=subprocess.STDOUT, env=dict(os.environ, VERIF_REPO=work, VERIF_EVIDENCE_DIR="/root/scratch/seed-ev-" + sid, VERIF_REPLAY_DIR="/root/scratch/seed-rp-" + sid))
    finally:
        subprocess.run("rm -rf %s /root/scratch/seed-ev-%s /root/scratch/seed-rp-%s" % (work, sid, sid), shell=True)
else:
    assert subprocess.run("git -C /repo status --porcelain", shell=True, stdout=subprocess.PIPE).stdout.strip() == b"", "/repo not clean"
    subprocess.run("git -C /repo apply --whitespace=nowarn %s/patch.diff" % d, shell=True, check=True)
    try:
        p = subprocess.run(["/verif/vcheck", prop, tier], cwd="/verif", stdout=subprocess.PIPE, stderr=subprocess.STDOUT)
    finally:
        subprocess.run("git -C /repo checkout -- . && git -C /repo clean -fdq", shell=True, check=True)
        subprocess.run("git -C /verif checkout -- evidence 2>/dev/null", shell=True)
out = p.stdout.decode("utf-8", "replace")
viol = [l for l in out.splitlines() if l.startswith("VIOLATION")]
first = ""
lines = out.splitlines()
for i, l in enumerate(lines):
    if l.startswith("VIOLATION"):
        first = " | ".join(lines[i:i+2])[:400]
        break
res = {"check": prop, "tier": tier, "exit": p.returncode, "violations": len(viol), "first": first, "wall_s": round(time.time() - t0, 1)}
print(sid, json.dumps(res))
if p.returncode not in (0, 1):
    print(out[-3000:])
mp = os.path.join(d, "meta.json")
meta = json.load(open(mp))
meta["checks_run"] = [r for r in meta.get("checks_run", []) if not (r["check"] == prop and r["tier"] == tier)] + [res]
json.dump(meta, open(mp, "w"), indent=1)
# replays produced by a seeded run are not findings on the real tree
if not copy:
    subprocess.run("git -C /verif clean -fdq replays", shell=True)
