#!/usr/bin/env python3
"""Builds the sensitivity table of DESIGN.md section 10.6 from matrix results.

usage: tools/sensitivity.py <matrix.json> [<matrix.json> ...] [--write]
Each matrix file maps seed id -> check id -> {exit, violations, ...} (tools/matrix.py).  Later files override earlier
ones per (seed, check).  With --write the table replaces the text between the markers in DESIGN.md and every
seeded/<id>/meta.json gets a "matrix" entry (which quick checks reported a violation with the change applied).
"""
import json, os, sys

VERIF = os.path.dirname(os.path.dirname(os.path.abspath(__file__)))
BEGIN, END = "<!-- sensitivity:begin -->", "<!-- sensitivity:end -->"


def main():
    args = [a for a in sys.argv[1:] if not a.startswith("--")]
    write = "--write" in sys.argv
    res = {}
    for path in args:
        for seed, row in json.load(open(path)).items():
            if isinstance(row, dict):
                res.setdefault(seed, {}).update({c: r for c, r in row.items() if isinstance(r, dict)})
    lines = ["| change | breaks | needs, to manifest | caught by (quick tier, VERIF_SEED=1) | silent |", "|---|---|---|---|---|"]
    missed_own = []
    for seed in sorted(os.listdir(os.path.join(VERIF, "seeded"))):
        mp = os.path.join(VERIF, "seeded", seed, "meta.json")
        if not os.path.exists(mp):
            continue
        meta = json.load(open(mp))
        row = res.get(seed, {})
        caught = sorted(c for c, r in row.items() if r.get("exit") == 1 and r.get("violations", 0) > 0)
        incon = sorted(c for c, r in row.items() if r.get("exit") not in (0, 1))
        silent = len([c for c, r in row.items() if r.get("exit") == 0])
        own = meta.get("breaks_property", seed[:3])
        if row and own not in caught:
            missed_own.append(seed)
        needs = meta.get("needs_to_manifest", "").replace("|", "\\|").replace("\n", " ")
        if len(needs) > 150:
            needs = needs[:147] + "..."
        c = ", ".join(("**%s**" % x) if x == own else x for x in caught) or ("—" if row else "(not run)")
        if incon:
            c += " (inconclusive: " + ", ".join(incon) + ")"
        lines.append("| %s | %s | %s | %s | %d |" % (seed, own, needs, c, silent))
        if write and row:
            meta["matrix"] = {"tier": "quick", "seed": 1, "caught_by": caught, "inconclusive": incon, "silent": silent}
            json.dump(meta, open(mp, "w"), indent=1, ensure_ascii=False)
            open(mp, "a").write("\n")
    table = "\n".join(lines)
    print(table)
    print("\nown check silent for:", missed_own, file=sys.stderr)
    if write:
        dp = os.path.join(VERIF, "DESIGN.md")
        s = open(dp).read()
        if BEGIN in s:
            s = s[:s.index(BEGIN) + len(BEGIN)] + "\n" + table + "\n" + s[s.index(END):]
            open(dp, "w").write(s)


if __name__ == "__main__":
    main()
