#!/usr/bin/env python3
"""Regenerates MANIFEST.json from checks.json (claimed checks) and properties.jsonl (everything else -> not_applicable)."""
import json, os
V = os.path.dirname(os.path.abspath(__file__))
checks = json.load(open(os.path.join(V, "checks.json")))
props = [json.loads(l) for l in open(os.path.join(V, "properties.jsonl"))]
BASE = ("cd /repo && GOFLAGS=-mod=mod GOPROXY=off go test -json -vet=off -count=1 -timeout 25m ./...")
m = {
    "version": 1,
    "setup_cmd": "./vcheck --setup",
    "hooks": {
        "guard": "verif",
        "enable": "go test -tags verif in a scratch copy of /repo's working tree: vcheck copies harness/shims/** (//go:build verif export shims) and the harness packages into the copy; nothing is committed to /repo",
        "baseline_off_cmd": BASE,
        "source_commits": [],
        "add_only": True,
    },
    "engines": [{
        "name": "vcheck",
        "path": "/verif/vcheck",
        "serves_properties": sorted(checks),
        "kind_free_text": "python3 driver + Go property-based tests (pgregory.net/rapid v1.3.0, exhaustive enumerators, native go fuzzing in thorough tiers) compiled inside a scratch copy of /repo",
    }],
    "checks": [],
    "notes": "Every check: ./vcheck <ID> <quick|thorough>; VERIF_SEED selects the PRNG value; exit 2 = inconclusive (harness build error, timeout). Known findings and fixed defects: known_findings.json. Design: DESIGN.md.",
    "not_applicable": [],
}
for p in props:
    pid = p["id"]
    if pid in checks:
        c = checks[pid]
        m["checks"].append({
            "property_id": pid,
            "quick_cmd": "./vcheck %s quick" % pid,
            "thorough_cmd": "./vcheck %s thorough" % pid,
            "evidence_file": "/verif/evidence/%s.json" % pid,
            "replay_cmd_template": "./vcheck --replay {path}",
            "engine": "vcheck",
            "level_claimed": {"category": c.get("level", "exploration"), "text": c["level_text"], "design_ref": "DESIGN.md section 5, " + pid},
            "level_note": c["level_note"],
            "technique": c["technique"],
        })
    else:
        m["not_applicable"].append({"property_id": pid, "reason": "check not built yet in this revision (planned: DESIGN.md section 5, %s)" % pid})
json.dump(m, open(os.path.join(V, "MANIFEST.json"), "w"), indent=1)
print("claimed:", len(m["checks"]), "not claimed:", len(m["not_applicable"]))
