// Package gen holds the generators of the harness (rapid generators and exhaustive enumerators).
package gen

import (
	"fmt"

	"pgregory.net/rapid"

	"github.com/gardenbed/emerge/internal/vh/ref"
)

var (
	LitRunes   = []rune{'a', 'b', 'c', '0', '9', ' ', '-', '_', '"', '\'', '.', '*', '(', ')', '[', ']', '{', '}', '|', '?', '+', '$', '^', '\\', '/', ',', ':', 'A', 'F', 0xE9, 0x4E2D, 0xEEEE, 0xFFFD}
	Classes    = []string{`\d`, `\D`, `\s`, `\S`, `\w`, `\W`}
	Posix      = []string{"[:blank:]", "[:space:]", "[:digit:]", "[:xdigit:]", "[:upper:]", "[:lower:]", "[:alpha:]", "[:alnum:]", "[:word:]", "[:ascii:]"}
	brackRunes = []rune{'a', 'b', 'z', '0', '_', ']', '^', '\\', '-', ' ', 0xE9, 0x100, 0xEEEE}
)

// Quant fills the quantifier fields of q from a form index (0..5) and two small numbers.
func Quant(q *ref.Pat, form, n, m int) {
	switch form {
	case 0:
		q.Min, q.Max, q.QForm = 0, 1, "?"
	case 1:
		q.Min, q.Max, q.QForm = 0, -1, "*"
	case 2:
		q.Min, q.Max, q.QForm = 1, -1, "+"
	case 3:
		q.Min, q.Max, q.QForm = n, n, fmt.Sprintf("{%d}", n)
	case 4:
		q.Min, q.Max, q.QForm = n, -1, fmt.Sprintf("{%d,}", n)
	default:
		q.Min, q.Max, q.QForm = n, n+m, fmt.Sprintf("{%d,%d}", n, n+m)
	}
}

// Atom draws a single-character pattern.
func Atom(t *rapid.T) *ref.Pat {
	switch rapid.IntRange(0, 10).Draw(t, "atom") {
	case 0, 1, 2, 3:
		p := &ref.Pat{K: "lit", R: rapid.SampledFrom(LitRunes).Draw(t, "r")}
		if rapid.IntRange(0, 5).Draw(t, "spell") == 0 {
			p.Spell = rapid.SampledFrom([]int{2, 4, 8, 5, 6, 7}).Draw(t, "form")
		}
		return p
	case 4:
		return &ref.Pat{K: "any"}
	case 5:
		return &ref.Pat{K: "cls", Name: rapid.SampledFrom(Classes).Draw(t, "c")}
	case 6:
		return &ref.Pat{K: "posix", Name: rapid.SampledFrom(Posix).Draw(t, "c")}
	default:
		n := rapid.IntRange(1, 3).Draw(t, "n")
		br := &ref.Pat{K: "br", Neg: rapid.Bool().Draw(t, "neg")}
		for i := 0; i < n; i++ {
			switch rapid.IntRange(0, 4).Draw(t, "it") {
			case 0, 1:
				br.Items = append(br.Items, &ref.Pat{K: "lit", R: rapid.SampledFrom(brackRunes).Draw(t, "r")})
			case 2:
				lo := rapid.SampledFrom([]rune{'a', 'b', '0', 'A', ' ', 'x', 0x7C, 0xE8}).Draw(t, "lo")
				hi := lo + rune(rapid.IntRange(0, 5).Draw(t, "d"))
				br.Items = append(br.Items, &ref.Pat{K: "rng", R: lo, R2: hi, Spell: rapid.SampledFrom([]int{0, 0, 0, 0, 4, 5, 6, 7, 8}).Draw(t, "rangeSpelling")})
			case 3:
				br.Items = append(br.Items, &ref.Pat{K: "cls", Name: rapid.SampledFrom(Classes).Draw(t, "c")})
			default:
				br.Items = append(br.Items, &ref.Pat{K: "posix", Name: rapid.SampledFrom(Posix).Draw(t, "c")})
			}
		}
		return br
	}
}

func wrapFor(parent string, s *ref.Pat) *ref.Pat {
	switch parent {
	case "cat":
		if s.K == "alt" || s.K == "cat" {
			return &ref.Pat{K: "grp", Subs: []*ref.Pat{s}}
		}
	case "alt":
		if s.K == "alt" {
			return &ref.Pat{K: "grp", Subs: []*ref.Pat{s}}
		}
	case "q":
		if s.K == "alt" || s.K == "cat" || s.K == "q" {
			return &ref.Pat{K: "grp", Subs: []*ref.Pat{s}}
		}
	}
	return s
}

// Pattern draws a pattern tree of at most the given depth.  nullableBias raises the share of
// nullable operands inside concatenations (the shapes C10 is about).
func Pattern(t *rapid.T, depth int, nullableBias bool) *ref.Pat {
	if depth == 0 {
		return Atom(t)
	}
	k := rapid.IntRange(0, 7).Draw(t, "k")
	switch k {
	case 0:
		return Atom(t)
	case 1, 2:
		n := rapid.IntRange(2, 4).Draw(t, "n")
		p := &ref.Pat{K: "cat"}
		for i := 0; i < n; i++ {
			var s *ref.Pat
			if nullableBias && rapid.IntRange(0, 1).Draw(t, "nb") == 0 {
				s = &ref.Pat{K: "q", Subs: []*ref.Pat{wrapFor("q", Pattern(t, depth-1, nullableBias))}, Lazy: rapid.IntRange(0, 4).Draw(t, "lazy") == 0}
				form := rapid.SampledFrom([]int{0, 1, 3, 4, 5}).Draw(t, "qf")
				Quant(s, form, 0, rapid.IntRange(0, 2).Draw(t, "m"))
			} else {
				s = Pattern(t, depth-1, nullableBias)
			}
			p.Subs = append(p.Subs, wrapFor("cat", s))
		}
		return p
	case 3:
		n := rapid.IntRange(2, 3).Draw(t, "n")
		p := &ref.Pat{K: "alt"}
		for i := 0; i < n; i++ {
			p.Subs = append(p.Subs, wrapFor("alt", Pattern(t, depth-1, nullableBias)))
		}
		return p
	case 4:
		return &ref.Pat{K: "grp", Subs: []*ref.Pat{Pattern(t, depth-1, nullableBias)}}
	default:
		s := wrapFor("q", Pattern(t, depth-1, nullableBias))
		q := &ref.Pat{K: "q", Subs: []*ref.Pat{s}, Lazy: rapid.IntRange(0, 3).Draw(t, "lazy") == 0}
		Quant(q, rapid.IntRange(0, 5).Draw(t, "qf"), rapid.IntRange(0, 3).Draw(t, "n"), rapid.IntRange(0, 2).Draw(t, "m"))
		return q
	}
}

// unary operator forms of the exhaustive enumeration
type unary struct {
	form    string
	min     int
	max     int
	lazy    bool
	isGroup bool
}

var unaries = []unary{
	{isGroup: true},
	{"?", 0, 1, false, false}, {"*", 0, -1, false, false}, {"+", 1, -1, false, false},
	{"{0}", 0, 0, false, false}, {"{1}", 1, 1, false, false}, {"{2}", 2, 2, false, false}, {"{0,0}", 0, 0, false, false}, {"{1,1}", 1, 1, false, false},
	{"{0,}", 0, -1, false, false}, {"{1,}", 1, -1, false, false}, {"{2,}", 2, -1, false, false},
	{"{0,1}", 0, 1, false, false}, {"{0,2}", 0, 2, false, false}, {"{1,2}", 1, 2, false, false}, {"{2,2}", 2, 2, false, false},
	{"?", 0, 1, true, false}, {"*", 0, -1, true, false}, {"+", 1, -1, true, false}, {"{1,2}", 1, 2, true, false},
}

// EnumPatterns enumerates every pattern tree with exactly n operator/atom nodes (grouping parentheses that
// the syntax requires are added and not counted) over the given atoms.
func EnumPatterns(n int, atoms []*ref.Pat) []*ref.Pat {
	memo := map[int][]*ref.Pat{}
	var rec func(n int) []*ref.Pat
	rec = func(n int) []*ref.Pat {
		if n <= 0 {
			return nil
		}
		if r, ok := memo[n]; ok {
			return r
		}
		var out []*ref.Pat
		if n == 1 {
			out = append(out, atoms...)
		} else {
			for _, c := range rec(n - 1) {
				for _, u := range unaries {
					if u.isGroup {
						out = append(out, &ref.Pat{K: "grp", Subs: []*ref.Pat{c}})
					} else {
						out = append(out, &ref.Pat{K: "q", Subs: []*ref.Pat{wrapFor("q", c)}, Min: u.min, Max: u.max, QForm: u.form, Lazy: u.lazy})
					}
				}
			}
			for l := 1; l <= n-2; l++ {
				for _, a := range rec(l) {
					for _, b := range rec(n - 1 - l) {
						out = append(out, &ref.Pat{K: "cat", Subs: []*ref.Pat{wrapFor("cat", a), wrapFor("cat", b)}})
						out = append(out, &ref.Pat{K: "alt", Subs: []*ref.Pat{wrapFor("alt", a), wrapFor("alt", b)}})
					}
				}
			}
		}
		memo[n] = out
		return out
	}
	return rec(n)
}

// SingleConstructs lists every class, POSIX class, escape and bracket form individually (positive and negated).
func SingleConstructs() []*ref.Pat {
	var out []*ref.Pat
	out = append(out, &ref.Pat{K: "any"})
	for _, c := range Classes {
		out = append(out, &ref.Pat{K: "cls", Name: c})
	}
	for _, c := range Posix {
		out = append(out, &ref.Pat{K: "posix", Name: c})
	}
	for _, neg := range []bool{false, true} {
		for _, c := range Classes {
			out = append(out, &ref.Pat{K: "br", Neg: neg, Items: []*ref.Pat{{K: "cls", Name: c}}})
		}
		for _, c := range Posix {
			out = append(out, &ref.Pat{K: "br", Neg: neg, Items: []*ref.Pat{{K: "posix", Name: c}}})
		}
		for _, r := range []rune{'a', 'Z', '0', '_', ' ', '-', ']', '[', '^', '\\', '.', '*', '"', '\'', 0x01, 0x09, 0x0A, 0x1F, 0x7E, 0x7F, 0x80, 0xE9, 0xFF, 0x100, 0x4E2D, 0x1F600} {
			out = append(out, &ref.Pat{K: "br", Neg: neg, Items: []*ref.Pat{{K: "lit", R: r}}})
		}
		for _, rg := range [][2]rune{{'a', 'a'}, {'a', 'c'}, {'0', '9'}, {'A', 'z'}, {' ', '/'}, {0x01, 0x1F}, {0x7E, 0x81}, {0xE8, 0xEA}, {0x7F, 0x7F}, {'+', '-'}, {'[', ']'}} {
			out = append(out, &ref.Pat{K: "br", Neg: neg, Items: []*ref.Pat{{K: "rng", R: rg[0], R2: rg[1]}}})
		}
		out = append(out, &ref.Pat{K: "br", Neg: neg, Items: []*ref.Pat{{K: "lit", R: 'a'}, {K: "rng", R: 'x', R2: 'z'}, {K: "cls", Name: `\d`}, {K: "posix", Name: "[:blank:]"}}})
		// ranges of one character; ranges that end at the last code point
		for _, rg := range [][2]rune{{'0', '0'}, {'A', 'A'}, {'b', 'b'}, {0xE9, 0xE9}, {0x10FFFE, 0x10FFFF}, {0x10FFFF, 0x10FFFF}, {0x10FFFD, 0x10FFFF}} {
			if neg && rg[0] > 0x7F {
				continue
			}
			out = append(out, &ref.Pat{K: "br", Neg: neg, Items: []*ref.Pat{{K: "rng", R: rg[0], R2: rg[1]}}})
			out = append(out, &ref.Pat{K: "br", Neg: neg, Items: []*ref.Pat{{K: "lit", R: 'x'}, {K: "rng", R: rg[0], R2: rg[1], Spell: 8}}})
		}
	}
	// patterns made of literals only, with escaped backslashes and escaped specials next to plain characters
	for _, word := range []string{"C:\\tmp", "\\\\", "a\\b\\c", ".\\*", "\\x", "x\\", "(\\)", "a.b", "1+1=2", "\\\\n"} {
		c := &ref.Pat{K: "cat"}
		for _, r := range word {
			c.Subs = append(c.Subs, &ref.Pat{K: "lit", R: r})
		}
		out = append(out, c)
	}
	// every ASCII character as a literal in its canonical spelling, and in every escape form
	for r := rune(1); r <= 0x7F; r++ {
		out = append(out, &ref.Pat{K: "lit", R: r})
		out = append(out, &ref.Pat{K: "lit", R: r, Spell: 2})
	}
	for _, r := range []rune{0x80, 0x81, 0xA0, 0xC0, 0xE9, 0xFE, 0xFF} {
		// two-digit escapes above ASCII, alone, in a bracket group and as range end points
		out = append(out, &ref.Pat{K: "lit", R: r, Spell: 2})
		out = append(out, &ref.Pat{K: "br", Items: []*ref.Pat{{K: "lit", R: r, Spell: 2}, {K: "lit", R: 'a'}}})
		if r < 0xFF {
			out = append(out, &ref.Pat{K: "br", Items: []*ref.Pat{{K: "rng", R: r, R2: 0xFF, Spell: 2}}})
		}
	}
	// '^' is the anchor only as the first character of a pattern; anywhere else it is an ordinary character
	for _, subs := range [][]*ref.Pat{
		{{K: "lit", R: 'a'}, {K: "lit", R: '^', Spell: 1}, {K: "lit", R: 'b'}},
		{{K: "lit", R: 'a'}, {K: "lit", R: '^', Spell: 1}},
		{{K: "br", Items: []*ref.Pat{{K: "rng", R: '0', R2: '9'}}}, {K: "lit", R: '^', Spell: 1}, {K: "lit", R: '^', Spell: 1}, {K: "lit", R: '2'}},
		{{K: "grp", Subs: []*ref.Pat{{K: "alt", Subs: []*ref.Pat{{K: "lit", R: 'x'}, {K: "cat", Subs: []*ref.Pat{{K: "lit", R: 'y'}, {K: "lit", R: '^', Spell: 1}}}}}}}, {K: "lit", R: 'z'}},
	} {
		out = append(out, &ref.Pat{K: "cat", Subs: subs})
	}
	// repetition counts written with leading zeros are decimal numbers (num = {{ digit }})
	for _, q := range []struct {
		form     string
		min, max int
		operand  *ref.Pat
	}{
		{"{08}", 8, 8, &ref.Pat{K: "lit", R: 'a'}},
		{"{010}", 10, 10, &ref.Pat{K: "lit", R: 'a'}},
		{"{2,010}", 2, 10, &ref.Pat{K: "br", Items: []*ref.Pat{{K: "rng", R: '0', R2: '9'}}}},
		{"{011,}", 11, -1, &ref.Pat{K: "lit", R: 'x'}},
		{"{009}", 9, 9, &ref.Pat{K: "grp", Subs: []*ref.Pat{{K: "cat", Subs: []*ref.Pat{{K: "lit", R: 'a'}, {K: "lit", R: 'b'}}}}}},
		{"{00,07}", 0, 7, &ref.Pat{K: "lit", R: 'a'}},
		{"{0012}", 12, 12, &ref.Pat{K: "lit", R: 'b'}},
	} {
		out = append(out, &ref.Pat{K: "cat", Subs: []*ref.Pat{{K: "q", QForm: q.form, Min: q.min, Max: q.max, Subs: []*ref.Pat{q.operand}}, {K: "lit", R: 'z'}}})
	}
	// the private-use character U+EEEE (the direct construction uses it as its end-marker) and its neighbours
	for _, p := range []*ref.Pat{
		{K: "lit", R: 0xEEEE},
		{K: "cat", Subs: []*ref.Pat{{K: "lit", R: 'a'}, {K: "lit", R: 0xEEEE}, {K: "lit", R: 'b'}}},
		{K: "q", QForm: "+", Min: 1, Max: -1, Subs: []*ref.Pat{{K: "br", Items: []*ref.Pat{{K: "rng", R: 0xEEED, R2: 0xEEEF}}}}},
		{K: "cat", Subs: []*ref.Pat{{K: "q", QForm: "*", Min: 0, Max: -1, Subs: []*ref.Pat{{K: "lit", R: 0xEEEE}}}, {K: "lit", R: 'x'}}},
		{K: "alt", Subs: []*ref.Pat{{K: "lit", R: 0xEEEE}, {K: "lit", R: 0xEEEF}}},
		{K: "br", Neg: true, Items: []*ref.Pat{{K: "lit", R: 0xEEEE}}},
	} {
		out = append(out, p)
	}
	for _, r := range []rune{0x41, 0x7F, 0x80, 0xE9, 0xFF, 0x100, 0xFFFF, 0x4E2D, 0x10000, 0x1F600, 0x10FFFF} {
		out = append(out, &ref.Pat{K: "lit", R: r, Spell: 4}, &ref.Pat{K: "lit", R: r, Spell: 8})
		for n := 5; n <= 7; n++ {
			out = append(out, &ref.Pat{K: "lit", R: r, Spell: n})
			// and as end point of a range inside a bracket group
			lo, hi := r, r+3
			if hi > 0x10FFFF {
				lo, hi = r-3, r
			}
			out = append(out, &ref.Pat{K: "br", Items: []*ref.Pat{{K: "rng", R: lo, R2: hi, Spell: n}}})
		}
	}
	// an escape followed by a hexadecimal digit (spelling disambiguation)
	out = append(out, &ref.Pat{K: "cat", Subs: []*ref.Pat{{K: "lit", R: 0x2D, Spell: 2}, {K: "lit", R: '0'}, {K: "lit", R: 'A'}}})
	out = append(out, &ref.Pat{K: "cat", Subs: []*ref.Pat{{K: "lit", R: 0xE9, Spell: 4}, {K: "lit", R: 'F'}}})
	return out
}
