package gen

import (
	"strings"

	"pgregory.net/rapid"

	"github.com/gardenbed/emerge/internal/vh/ref"
)

var gapPieces = []string{" ", " ", "  ", "\t", "\n", "\n", "\r\n", "\n\n", "// note\n", "//\n", "// a */ b\n", "//\ttab\tin a comment\n", "// cr only\r", "// back\\slash \\\n", "/* back\\slash */", "//\r", "// crlf\r\n", "\r", "\n\r", "/* c */", "/**/", "/* * **/", "/* two\nlines */", "/* // */", " /* c */ ", "/*\t*\t*/", "/* *\r\n * x */", "/* a *\tb *\n*/", "\t", "\r\n\t"}

// Seps draws a layout: the text between the tokens (before the first, between, after the last).  A separator is
// always present where two tokens would otherwise be scanned differently.
func Seps(t *rapid.T, toks []ref.Tok) []string {
	seps := make([]string, len(toks)+1)
	style := rapid.IntRange(0, 3).Draw(t, "layoutStyle") // 0 compact, 1 plain, 2 mixed, 3 heavy
	for i := range seps {
		must := i > 0 && i < len(toks) && ref.NeedsSeparator(toks[i-1], toks[i])
		n := 0
		switch style {
		case 0:
			n = 0
		case 1:
			n = 1
		case 2:
			n = rapid.IntRange(0, 2).Draw(t, "npieces")
		default:
			n = rapid.IntRange(1, 4).Draw(t, "npieces")
		}
		if i == 0 && style != 3 {
			n = rapid.IntRange(0, 1).Draw(t, "leading")
		}
		var b strings.Builder
		for k := 0; k < n; k++ {
			if style == 1 {
				if i > 0 && i <= len(toks) && toks[i-1].Kind == ";" {
					b.WriteString("\n")
				} else {
					b.WriteString(" ")
				}
			} else {
				b.WriteString(rapid.SampledFrom(gapPieces).Draw(t, "piece"))
			}
		}
		if must && b.Len() == 0 {
			b.WriteString(" ")
		}
		seps[i] = b.String()
	}
	// the end of the file: with or without a final newline, possibly a trailing comment without newline
	switch rapid.IntRange(0, 4).Draw(t, "ending") {
	case 0:
		seps[len(toks)] = strings.TrimRight(seps[len(toks)], "\r\n \t")
	case 1:
		seps[len(toks)] += "\n"
	case 2:
		seps[len(toks)] += "// end"
	case 3:
		seps[len(toks)] += "/* end */"
	}
	return seps
}
