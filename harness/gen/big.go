package gen

import (
	"fmt"

	"github.com/gardenbed/emerge/internal/vh/ref"
)

// BigModels returns large valid specifications: each has several hundred items of one kind (alternatives, nested
// groups, repetitions, operands, rules, token declarations, directives), more than any small power of two that an
// implementation might use for a table, a block of nodes or a counter. The EBNF grammar bounds none of them.
func BigModels() []*ref.SpecModel {
	str := func(s string) *ref.RHS { return &ref.RHS{K: "str", Name: s} }
	nt := func(s string) *ref.RHS { return &ref.RHS{K: "nt", Name: s} }
	tok := func(s string) *ref.RHS { return &ref.RHS{K: "tok", Name: s} }
	rule := func(name string, r *ref.RHS) *ref.Decl { return &ref.Decl{Kind: "rule", Name: name, RHS: r, Semi: true} }
	model := func(name string, ds ...*ref.Decl) *ref.SpecModel {
		return &ref.SpecModel{Name: name, NameSemi: true, Decls: ds}
	}
	var out []*ref.SpecModel

	// 300 alternatives
	alts := &ref.RHS{K: "alt"}
	for i := 0; i < 300; i++ {
		alts.Subs = append(alts.Subs, str(fmt.Sprintf("t%d", i)))
	}
	out = append(out, model("big_alts", rule("start", alts)))

	// 300 nested groups, 130 nested optional parts
	nest := str("a")
	for i := 0; i < 300; i++ {
		nest = &ref.RHS{K: "grp", Subs: []*ref.RHS{nest}}
	}
	opt := str("b")
	for i := 0; i < 130; i++ {
		opt = &ref.RHS{K: "opt", Subs: []*ref.RHS{{K: "cat", Subs: []*ref.RHS{str(fmt.Sprintf("o%d", i)), opt}}}}
	}
	out = append(out, model("big_nest", rule("start", &ref.RHS{K: "cat", Subs: []*ref.RHS{nest, opt}})))

	// 70 uses of each extended operator, side by side
	ops := &ref.RHS{K: "cat"}
	for i := 0; i < 70; i++ {
		ops.Subs = append(ops.Subs,
			&ref.RHS{K: "plus", Subs: []*ref.RHS{str(fmt.Sprintf("p%d", i))}},
			&ref.RHS{K: "star", Subs: []*ref.RHS{str(fmt.Sprintf("s%d", i))}},
			&ref.RHS{K: "opt", Subs: []*ref.RHS{str(fmt.Sprintf("q%d", i))}},
			&ref.RHS{K: "grp", Subs: []*ref.RHS{{K: "alt", Subs: []*ref.RHS{str(fmt.Sprintf("g%d", i)), str("h")}}}})
	}
	out = append(out, model("big_ops", rule("start", ops)))

	// 300 rules, 300 non-terminal operands and 600 terminal operands in one rule
	seq := &ref.RHS{K: "cat"}
	ds := []*ref.Decl{}
	for i := 0; i < 300; i++ {
		seq.Subs = append(seq.Subs, nt(fmt.Sprintf("x%d", i)), str("a"), str("b"))
	}
	ds = append(ds, rule("start", seq))
	for i := 0; i < 300; i++ {
		ds = append(ds, rule(fmt.Sprintf("x%d", i), &ref.RHS{K: "alt", Subs: []*ref.RHS{str("a"), {K: "empty"}}}))
	}
	out = append(out, model("big_rules", ds...))

	// 300 token declarations of every kind, all used
	use := &ref.RHS{K: "alt"}
	ds = nil
	for i := 0; i < 300; i++ {
		name := fmt.Sprintf("T%d", i)
		d := &ref.Decl{Kind: "token", Name: name, Semi: i%2 == 0}
		switch i % 3 {
		case 0:
			d.TokKind, d.Text = "string", fmt.Sprintf("kw%d", i)
		case 1:
			d.TokKind, d.Text = "regex", fmt.Sprintf("[0-9]+n%d", i)
		default:
			d.TokKind, d.Text = "string", fmt.Sprintf("op%d", i)
		}
		ds = append(ds, d)
		use.Subs = append(use.Subs, tok(name))
	}
	ds = append(ds, rule("start", use))
	out = append(out, model("big_tokens", ds...))

	// 100 directives with several handles each
	ds = nil
	body := &ref.RHS{K: "alt"}
	for i := 0; i < 100; i++ {
		h1, h2 := fmt.Sprintf("l%d", i), fmt.Sprintf("r%d", i)
		ds = append(ds, &ref.Decl{Kind: "directive", Assoc: []string{"@left", "@right", "@none"}[i%3], Handles: []*ref.Handle{{Term: str(h1)}, {Term: str(h2)}}, Semi: i%4 == 0})
		body.Subs = append(body.Subs, &ref.RHS{K: "cat", Subs: []*ref.RHS{nt("start"), str(h1), nt("start")}}, &ref.RHS{K: "cat", Subs: []*ref.RHS{str(h2), nt("start")}})
	}
	body.Subs = append(body.Subs, str("n"))
	ds = append(ds, rule("start", body))
	out = append(out, model("big_levels", ds...))
	return out
}

var bigScanner = ref.NewScanner()

// BigText renders a model in the plain layout, shifted by leading blanks until no lexeme ends at the last byte of a
// 4096-byte half of the reader's buffer (the class of the listed dependency finding buffer-half-reload, C13).
func BigText(m *ref.SpecModel) (string, []ref.Tok) {
	toks := m.Tokens()
	seps := ref.PlainSeps(toks)
	for shift := 0; shift < 64; shift++ {
		text, placed := ref.Render(toks, seps)
		hazard := false
		for _, b := range bigScanner.Boundaries(text + "\n") {
			hazard = hazard || b%4096 == 4095
		}
		if !hazard {
			return text, placed
		}
		// move everything after the first line, and (every fourth attempt) the first line as well
		if shift%4 == 3 {
			seps[0] += " "
		} else if len(seps) > 3 {
			seps[3] += " "
		}
	}
	text, placed := ref.Render(toks, seps)
	return text, placed
}
