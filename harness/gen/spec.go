package gen

import (
	"fmt"
	"regexp"

	"pgregory.net/rapid"

	"github.com/gardenbed/emerge/internal/vh/ref"
)

// SpecOpts steers the specification generator.
type SpecOpts struct {
	MaxRules      int      // user rules in addition to start
	Depth         int      // maximal nesting depth of a right-hand side
	Literals      []string // string literal texts (source form, between the quotes)
	Tokens        []string // named tokens
	ReservedNames bool     // draw rule names from the name space emerge synthesises
	Directives    int      // maximal number of directives
	RuleHandles   bool     // directives may contain rule handles
	DupRules      bool     // a rule name may be declared twice
	EmptyRules    bool     // a rule may have an empty right-hand side
}

var plainNames = []string{"x", "y", "z", "expr", "e1", "x_opt", "y_star", "z_plus", "x_group", "item"}
var reservedNames = []string{"star", "plus", "semi", "gen_a_opt", "gen1_group", "gen_x_star", "gen_start_plus", "gen2_star", "dot", "lparen"}

// ReservedLooking reports whether a rule name lies in the name space emerge uses for synthesised rules
// (gen..._suffix) or equals the spelled-out name of a punctuation terminal.
var genName = regexp.MustCompile(`^gen\d*_`)

func ReservedLooking(name string) bool {
	if genName.MatchString(name) {
		return true
	}
	for _, n := range reservedNames {
		if n == name {
			return true
		}
	}
	return false
}

type rhsGen struct {
	t     *rapid.T
	o     SpecOpts
	nts   []string
	pool  []*ref.RHS
	reuse int
}

func (g *rhsGen) leaf() *ref.RHS {
	k := rapid.IntRange(0, 9).Draw(g.t, "leaf")
	switch {
	case k < 5 || len(g.o.Tokens) == 0 && k < 7:
		return &ref.RHS{K: "str", Name: rapid.SampledFrom(g.o.Literals).Draw(g.t, "lit")}
	case k < 7:
		return &ref.RHS{K: "tok", Name: rapid.SampledFrom(g.o.Tokens).Draw(g.t, "tok")}
	default:
		return &ref.RHS{K: "nt", Name: rapid.SampledFrom(g.nts).Draw(g.t, "nt")}
	}
}

func clone(r *ref.RHS) *ref.RHS {
	c := &ref.RHS{K: r.K, Name: r.Name}
	for _, s := range r.Subs {
		c.Subs = append(c.Subs, clone(s))
	}
	return c
}

// rhs draws a tree in normal form: cat has >= 2 children none of which is cat/alt/empty; alt has >= 2
// alternatives none of which is alt, only the last may be empty; brackets have one non-empty child.
func (g *rhsGen) rhs(depth int) *ref.RHS {
	if len(g.pool) > 0 && rapid.IntRange(0, 3).Draw(g.t, "reuse") == 0 {
		g.reuse++
		return clone(g.pool[rapid.IntRange(0, len(g.pool)-1).Draw(g.t, "pi")])
	}
	var r *ref.RHS
	k := rapid.IntRange(0, 11).Draw(g.t, "k")
	if depth <= 0 {
		k = 0
	}
	switch k {
	case 0, 1, 2:
		r = g.leaf()
	case 3, 4:
		r = &ref.RHS{K: "cat"}
		for i, n := 0, rapid.IntRange(2, 3).Draw(g.t, "n"); i < n; i++ {
			s := g.rhs(depth - 1)
			switch s.K {
			case "cat":
				r.Subs = append(r.Subs, s.Subs...)
			case "alt":
				r.Subs = append(r.Subs, &ref.RHS{K: "grp", Subs: []*ref.RHS{s}})
			default:
				r.Subs = append(r.Subs, s)
			}
		}
	case 5, 6:
		r = &ref.RHS{K: "alt"}
		for i, n := 0, rapid.IntRange(2, 3).Draw(g.t, "n"); i < n; i++ {
			s := g.rhs(depth - 1)
			if s.K == "alt" {
				for _, x := range s.Subs {
					if x.K != "empty" {
						r.Subs = append(r.Subs, x)
					}
				}
			} else {
				r.Subs = append(r.Subs, s)
			}
		}
		if rapid.IntRange(0, 2).Draw(g.t, "trail") == 0 {
			r.Subs = append(r.Subs, &ref.RHS{K: "empty"})
		}
	default:
		kind := []string{"grp", "opt", "star", "plus", "grp", "plus"}[k-6]
		var child *ref.RHS
		if len(g.pool) > 0 && rapid.IntRange(0, 1).Draw(g.t, "sameOperand") == 0 {
			// the same sub-expression under another operator
			child = clone(g.pool[rapid.IntRange(0, len(g.pool)-1).Draw(g.t, "oi")])
			for child.K == "grp" || child.K == "opt" || child.K == "star" || child.K == "plus" {
				if rapid.Bool().Draw(g.t, "unwrap") {
					child = child.Subs[0]
				} else {
					break
				}
			}
		} else {
			child = g.rhs(depth - 1)
		}
		r = &ref.RHS{K: kind, Subs: []*ref.RHS{child}}
	}
	g.pool = append(g.pool, r)
	return r
}

// Spec draws a well-formed specification.
func Spec(t *rapid.T, o SpecOpts) *ref.SpecModel {
	m := &ref.SpecModel{Name: rapid.SampledFrom([]string{"g", "calc", "lang_1"}).Draw(t, "gname"), NameSemi: rapid.Bool().Draw(t, "nameSemi")}
	names := []string{"start"}
	pool := plainNames
	if o.ReservedNames && rapid.IntRange(0, 9).Draw(t, "reserved") == 0 {
		pool = append(append([]string{}, plainNames...), reservedNames...)
	}
	nr := rapid.IntRange(0, o.MaxRules).Draw(t, "nrules")
	for len(names) < nr+1 {
		n := rapid.SampledFrom(pool).Draw(t, "rname")
		dup := false
		for _, x := range names {
			dup = dup || x == n
		}
		if !dup {
			names = append(names, n)
		} else if len(names) > len(pool) {
			break
		}
	}
	g := &rhsGen{t: t, o: o, nts: names}
	var rules []*ref.Decl
	for _, n := range names {
		d := &ref.Decl{Kind: "rule", Name: n, Semi: true}
		if !(o.EmptyRules && rapid.IntRange(0, 9).Draw(t, "emptyRule") == 0) {
			d.RHS = g.rhs(rapid.IntRange(min(1, o.Depth), o.Depth).Draw(t, "depth"))
		}
		rules = append(rules, d)
		if o.DupRules && rapid.IntRange(0, 7).Draw(t, "dupRule") == 0 {
			rules = append(rules, &ref.Decl{Kind: "rule", Name: n, Semi: true, RHS: g.rhs(rapid.IntRange(0, 1).Draw(t, "depth2"))})
		}
	}
	rules = rapid.Permutation(rules).Draw(t, "ruleOrder")
	// directives
	var dirs []*ref.Decl
	usedHandle := map[string]bool{}
	nd := 0
	if o.Directives > 0 {
		nd = rapid.IntRange(0, o.Directives).Draw(t, "ndirs")
	}
	for i := 0; i < nd; i++ {
		d := &ref.Decl{Kind: "directive", Assoc: rapid.SampledFrom([]string{"@left", "@right", "@none"}).Draw(t, "assoc"), Semi: rapid.Bool().Draw(t, "dsemi")}
		for j, nh := 0, rapid.IntRange(1, 3).Draw(t, "nh"); j < nh; j++ {
			if o.RuleHandles && rapid.IntRange(0, 2).Draw(t, "rh") == 0 {
				r := &ref.Decl{Kind: "rule", Name: rapid.SampledFrom(names).Draw(t, "hname")}
				if !(o.EmptyRules && rapid.IntRange(0, 9).Draw(t, "emptyHandle") == 0) {
					r.RHS = g.rhs(rapid.IntRange(0, 2).Draw(t, "hdepth"))
				}
				// two levels must not share a production: one rule handle per rule name keeps the expansions disjoint
				key := "r:" + r.Name
				if usedHandle[key] {
					continue
				}
				usedHandle[key] = true
				d.Handles = append(d.Handles, &ref.Handle{Rule: r})
			} else {
				l := g.leaf()
				for l.K == "nt" {
					l = g.leaf()
				}
				key := l.K + ":" + l.Name
				if usedHandle[key] {
					continue
				}
				usedHandle[key] = true
				d.Handles = append(d.Handles, &ref.Handle{Term: l})
			}
		}
		if len(d.Handles) > 0 {
			dirs = append(dirs, d)
		}
	}
	// token declarations for every named token that is used
	used := map[string]bool{}
	collect := func(r *ref.RHS) {
		r.Walk(func(x *ref.RHS) {
			if x.K == "tok" {
				used[x.Name] = true
			}
		})
	}
	for _, r := range rules {
		collect(r.RHS)
	}
	for _, d := range dirs {
		for _, h := range d.Handles {
			if h.Term != nil {
				collect(h.Term)
			} else {
				collect(h.Rule.RHS)
			}
		}
	}
	var toks []*ref.Decl
	predefOff := rapid.IntRange(0, len(PredefNames)-1).Draw(t, "predefOff")
	for i, name := range o.Tokens {
		if !used[name] && rapid.IntRange(0, 3).Draw(t, "unusedTok") != 0 {
			continue
		}
		d := &ref.Decl{Kind: "token", Name: name, Semi: rapid.Bool().Draw(t, "tsemi")}
		switch rapid.IntRange(0, 2).Draw(t, "tkind") {
		case 0:
			d.TokKind, d.Text = "string", fmt.Sprintf("kw%d", i)
		case 1:
			d.TokKind, d.Text = "regex", fmt.Sprintf("[0-9]+t%d", i)
		default:
			d.TokKind, d.Text = "predef", PredefNames[(predefOff+i)%len(PredefNames)]
		}
		toks = append(toks, d)
	}
	// interleave: token declarations and directives may stand before, between or after the rules
	all := append(append([]*ref.Decl{}, toks...), dirs...)
	all = rapid.Permutation(all).Draw(t, "declOrder")
	for _, r := range rules {
		pos := rapid.IntRange(0, len(m.Decls)).Draw(t, "pos")
		_ = pos
		m.Decls = append(m.Decls, r)
	}
	// insert the others at random positions, keeping the relative order of directives (it is significant)
	out := m.Decls
	var dirSeq, tokSeq []*ref.Decl
	for _, d := range all {
		if d.Kind == "directive" {
			dirSeq = append(dirSeq, d)
		} else {
			tokSeq = append(tokSeq, d)
		}
	}
	for _, d := range tokSeq {
		pos := rapid.IntRange(0, len(out)).Draw(t, "tokPos")
		out = append(out[:pos], append([]*ref.Decl{d}, out[pos:]...)...)
	}
	last := 0
	for _, d := range dirSeq {
		pos := rapid.IntRange(last, len(out)).Draw(t, "dirPos")
		out = append(out[:pos], append([]*ref.Decl{d}, out[pos:]...)...)
		last = pos + 1
	}
	m.Decls = out
	m.FixSemis()
	return m
}
