package gen

import "github.com/gardenbed/emerge/internal/vh/ref"

// PredefTexts is the harness's own copy of the documented table of predefined patterns.
var PredefTexts = map[string]string{
	"$WS":      `[\x09\x0A\x0D\x20]`,
	"$DIGIT":   `[0-9]`,
	"$LETTER":  `[A-Za-z]`,
	"$ID":      `[A-Za-z_][0-9A-Za-z_]*`,
	"$NUMBER":  `-?[0-9]+(\.[0-9]+)?`,
	"$STRING":  `"([\x21\x23-\x5B\x5D-\x7E]|\\[\x21-\x7E])+"`,
	"$COMMENT": `(#|//)[\x09\x20-\x7E]*|/\*[\x09\x0A\x0D\x20-\x7E]*?\*/`,
}

// PredefNames in a fixed order.
var PredefNames = []string{"$WS", "$DIGIT", "$LETTER", "$ID", "$NUMBER", "$STRING", "$COMMENT"}

// PredefPats is the meaning of each predefined pattern as a pattern tree (hand-built from the table).
func PredefPats() map[string]*ref.Pat {
	lit := func(r rune) *ref.Pat { return &ref.Pat{K: "lit", R: r} }
	rng := func(a, b rune) *ref.Pat { return &ref.Pat{K: "rng", R: a, R2: b} }
	br := func(items ...*ref.Pat) *ref.Pat { return &ref.Pat{K: "br", Items: items} }
	cat := func(s ...*ref.Pat) *ref.Pat { return &ref.Pat{K: "cat", Subs: s} }
	alt := func(s ...*ref.Pat) *ref.Pat { return &ref.Pat{K: "alt", Subs: s} }
	grp := func(s *ref.Pat) *ref.Pat { return &ref.Pat{K: "grp", Subs: []*ref.Pat{s}} }
	q := func(s *ref.Pat, min, max int) *ref.Pat { return &ref.Pat{K: "q", Subs: []*ref.Pat{s}, Min: min, Max: max} }
	strBody := alt(br(lit(0x21), rng(0x23, 0x5B), rng(0x5D, 0x7E)), cat(lit('\\'), br(rng(0x21, 0x7E))))
	return map[string]*ref.Pat{
		"$WS":     br(lit(0x09), lit(0x0A), lit(0x0D), lit(0x20)),
		"$DIGIT":  br(rng('0', '9')),
		"$LETTER": br(rng('A', 'Z'), rng('a', 'z')),
		"$ID":     cat(br(rng('A', 'Z'), rng('a', 'z'), lit('_')), q(br(rng('0', '9'), rng('A', 'Z'), rng('a', 'z'), lit('_')), 0, -1)),
		"$NUMBER": cat(q(lit('-'), 0, 1), q(br(rng('0', '9')), 1, -1), q(grp(cat(lit('.'), q(br(rng('0', '9')), 1, -1))), 0, 1)),
		"$STRING": cat(lit('"'), q(grp(strBody), 1, -1), lit('"')),
		"$COMMENT": alt(
			cat(grp(alt(lit('#'), cat(lit('/'), lit('/')))), q(br(lit(0x09), rng(0x20, 0x7E)), 0, -1)),
			cat(lit('/'), lit('*'), q(br(lit(0x09), lit(0x0A), lit(0x0D), rng(0x20, 0x7E)), 0, -1), lit('*'), lit('/')),
		),
	}
}
