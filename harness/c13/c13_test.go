// Package c13 decides property C13: the result depends only on the token sequence, not on layout, padding or file size.
package c13

import (
	"bytes"
	"encoding/json"
	"errors"
	"fmt"
	"os"
	"os/exec"
	"path/filepath"
	"regexp"
	"sort"
	"strings"
	"sync"
	"testing"
	"time"

	algoparser "github.com/moorara/algo/parser"
	"pgregory.net/rapid"

	ebnf "github.com/gardenbed/emerge/internal/ebnf/parser"
	"github.com/gardenbed/emerge/internal/ebnf/parser/spec"
	"github.com/gardenbed/emerge/internal/vh/emit"
	"github.com/gardenbed/emerge/internal/vh/gen"
	"github.com/gardenbed/emerge/internal/vh/rec"
	"github.com/gardenbed/emerge/internal/vh/ref"
)

func TestMain(m *testing.M) {
	if f := os.Getenv("VERIF_C13_CHILD"); f != "" {
		// child mode: derive the signature of one text in a process of its own (see signature)
		text, err := os.ReadFile(f)
		if err != nil {
			fmt.Println(err)
			os.Exit(9)
		}
		sig, serr := signatureNow(string(text))
		out := map[string]string{"sig": sig}
		if serr != nil {
			out["err"] = serr.Error()
		}
		_ = json.NewEncoder(os.Stdout).Encode(out)
		os.Exit(0)
	}
	rec.Main(m, "C13")
}

// errStarved: a call did not return within its wall-clock limit but hardly got the processor: no verdict.
var errStarved = errors.New("inconclusive: the machine is too busy to tell an endless loop from a slow run")

// ruleMore describes what was added to the exploration in the build phase.
const ruleMore = "; a quarter of the specifications are made ill-formed (undefined token or rule, token twice, same value, invalid pattern, unknown predefined name): the diagnostics must name the same tokens (ordinals) in every layout"

const (
	rule = "a specification model rendered under independent layouts (separators, comments, optional semicolons, with/without final newline, trailing comment) and with constructed padding " +
		"(spaces, a long comment, blank lines or comment lines; leading or between two tokens) that places the first, last or following byte of a chosen token at b-2..b+2 for b in {4096, 8192, 12288}; " +
		"the thorough tier also sweeps every padding 0..2*4096+64 for several specifications; oracle: the signature (name, productions, definitions, precedence levels, or the error with positions removed) is the same for every rendering, " +
		"and every token's reported position (offset, line, column) equals the position recomputed from the rendering; non-trivial = some token abuts or straddles a buffer-half boundary, or the text lacks a final newline; distinct by text hash"
	reloadKey = "buffer-half-reload"
)

var scanner = ref.NewScanner()

type input struct {
	Model *ref.SpecModel `json:"model"`
	Base  string         `json:"base"`
	Text  string         `json:"text"`
	Pad   int            `json:"pad"`
}

var posRe = regexp.MustCompile(`\S+\.ebnf:\d+:\d+`)

// signature is everything emerge derives from a specification, without positions.  A specification of a few
// kilobytes is processed in milliseconds.  A call that has not returned after 20 s is repeated in a child process whose
// processor time is watched: 10 s of processor time without a result is an endless loop ("does not return for this
// layout"); a child that merely does not get the processor (busy machine) yields no verdict (errStarved).
func signature(text string) (string, error) {
	type result struct {
		sig string
		err error
	}
	done := make(chan result, 1)
	go func() {
		s, e := signatureNow(text)
		done <- result{s, e}
	}()
	select {
	case r := <-done:
		return r.sig, r.err
	case <-time.After(20 * time.Second):
	}
	rec.Count("calls_repeated_in_a_child_process", 1)
	dir, err := os.MkdirTemp("", "c13child")
	if err != nil {
		return "", err
	}
	defer os.RemoveAll(dir)
	file := filepath.Join(dir, "text.ebnf")
	if err := os.WriteFile(file, []byte(text), 0o644); err != nil {
		return "", err
	}
	cmd := exec.Command(os.Args[0], "-test.run", "^$")
	cmd.Env = append(os.Environ(), "VERIF_C13_CHILD="+file)
	var out bytes.Buffer
	cmd.Stdout = &out
	if err := cmd.Start(); err != nil {
		return "", err
	}
	finished := make(chan error, 1)
	go func() { finished <- cmd.Wait() }()
	start := time.Now()
	tick := time.NewTicker(500 * time.Millisecond)
	defer tick.Stop()
	for {
		select {
		case werr := <-finished:
			var res map[string]string
			if werr != nil || json.Unmarshal(out.Bytes(), &res) != nil {
				return "", fmt.Errorf("harness: the child process failed: %v %s", werr, out.String())
			}
			if res["err"] != "" {
				return res["sig"], errors.New(res["err"])
			}
			return res["sig"], nil
		case <-tick.C:
			if emit.CPUTime(cmd.Process.Pid) >= emit.SpinCPU {
				_ = cmd.Process.Kill()
				<-finished
				return "", fmt.Errorf("emerge does not return for this layout of the specification (%d bytes): %v of processor time without a result, the normal cost is milliseconds", len(text), emit.SpinCPU)
			}
			if time.Since(start) >= emit.WallLimit {
				_ = cmd.Process.Kill()
				<-finished
				return "", errStarved
			}
		}
	}
}

func signatureNow(text string) (string, error) {
	var sp *spec.Spec
	var err error
	if perr := rec.Guard(func() { sp, err = spec.Parse("t.ebnf", ref.Source(text)) }); perr != nil {
		return "", perr
	}
	if err != nil {
		return "ERROR: " + posRe.ReplaceAllString(err.Error(), "<pos>"), nil
	}
	var b strings.Builder
	fmt.Fprintf(&b, "name=%s\n", sp.Name)
	var prods []string
	for p := range sp.Grammar.Productions.All() {
		prods = append(prods, p.String())
	}
	sort.Strings(prods)
	fmt.Fprintf(&b, "productions=%s\n", strings.Join(prods, " ; "))
	var defs []string
	for _, d := range sp.Definitions {
		defs = append(defs, fmt.Sprintf("%s=%q/%v", d.Terminal, d.Value, d.IsRegex))
	}
	fmt.Fprintf(&b, "definitions=%s\n", strings.Join(defs, " ; "))
	for i, l := range sp.Precedences {
		fmt.Fprintf(&b, "level%d=%s\n", i, l)
	}
	fmt.Fprintf(&b, "start=%s terminals=%d nonterminals=%d\n", sp.Grammar.Start, sp.Grammar.Terminals.Size(), sp.Grammar.NonTerminals.Size())
	return b.String(), nil
}

var lastLong string

// leaves returns the significant tokens with positions as the parser reports them.
func leaves(text string) ([]ref.Tok, error) {
	var root algoparser.Node
	var err error
	if perr := rec.Guard(func() {
		var p *ebnf.Parser
		p, err = ebnf.New("t.ebnf", ref.Source(text))
		if err == nil && len(text) > 4096 {
			// a second parser for another long text is created before this one runs: what this one reads must not
			// depend on it (a reader that has only loaded the first part of its file keeps reading its own file)
			if lastLong != "" {
				_, _ = ebnf.New("other.ebnf", strings.NewReader(lastLong))
				rec.Count("long_renderings_parsed_with_another_parser_created_in_between", 1)
			}
			lastLong = text
		}
		if err == nil {
			root, err = p.ParseAndBuildAST()
		}
	}); perr != nil {
		return nil, perr
	}
	if err != nil {
		return nil, fmt.Errorf("the rendering is rejected: %v", err)
	}
	var out []ref.Tok
	var walk func(n algoparser.Node)
	walk = func(n algoparser.Node) {
		switch v := n.(type) {
		case *algoparser.LeafNode:
			out = append(out, ref.Tok{Kind: string(v.Terminal), Lexeme: v.Lexeme, Off: v.Position.Offset, Line: v.Position.Line, Col: v.Position.Column})
		case *algoparser.InternalNode:
			for _, c := range v.Children {
				walk(c)
			}
		}
	}
	walk(root)
	return out, nil
}

// hazard reports whether the text lies in the class of the listed dependency finding: the character that ends
// some lexeme (and is therefore read as look-ahead and retracted) is the last byte of a buffer half.
func hazard(text string) bool {
	for _, b := range scanner.Boundaries(text + "\n") {
		if b%4096 == 4095 {
			return true
		}
	}
	return false
}

var reloadOnce sync.Once
var reloadKnown bool

func reloadTolerated() bool {
	reloadOnce.Do(func() {
		base := "grammar g;\nstart = \"a\" x;\nx = \"b\" | ;\n"
		padded := "grammar g;\n" + strings.Repeat(" ", 4095-11) + "start = \"a\" x;\nx = \"b\" | ;\n"
		s1, e1 := signature(base)
		s2, e2 := signature(padded)
		present := e1 != nil || e2 != nil || s1 != s2
		reloadKnown = rec.Known(reloadKey, present)
	})
	return reloadKnown
}

// checkRendering compares one rendering with the base signature and checks every reported position.
func checkRendering(baseSig, text string, placed []ref.Tok) error {
	sig, err := signature(text)
	if err != nil {
		return err
	}
	if sig != baseSig {
		return fmt.Errorf("re-laying out the same token sequence changes the result\n--- plain layout:\n%s--- this layout:\n%s", baseSig, sig)
	}
	got, err := leaves(text)
	if err != nil {
		return err
	}
	if len(got) != len(placed) {
		return fmt.Errorf("the parser sees %d significant tokens, the rendering has %d", len(got), len(placed))
	}
	for i, w := range placed {
		g := got[i]
		if g.Kind != w.Kind || g.Lexeme != w.Lexeme {
			return fmt.Errorf("token %d is %s %q, the rendering has %s %q", i, g.Kind, g.Lexeme, w.Kind, w.Lexeme)
		}
		if g.Off != w.Off || g.Line != w.Line || g.Col != w.Col {
			return fmt.Errorf("token %d (%s %q) is reported at offset %d %d:%d, the inserted layout puts it at offset %d %d:%d", i, g.Kind, g.Lexeme, g.Off, g.Line, g.Col, w.Off, w.Line, w.Col)
		}
	}
	return nil
}

var posCapture = regexp.MustCompile(`t\.ebnf:(\d+):(\d+)`)

// positionsOf returns, for every position a diagnostic names, the ordinal of the token that starts there, counted
// without the optional semicolons (-1: no token starts there).
func positionsOf(text, msg string) []int {
	toks, _, _ := scanner.Scan(text)
	var out []int
	for _, m := range posCapture.FindAllStringSubmatch(msg, -1) {
		ord, found := 0, -1
		for _, tk := range toks {
			if tk.Kind == ";" {
				continue
			}
			if fmt.Sprint(tk.Line) == m[1] && fmt.Sprint(tk.Col) == m[2] {
				found = ord
			}
			ord++
		}
		out = append(out, found)
	}
	return out
}

// checkDiagnosticPositions: the positions in the diagnostics of a rejected specification name the same tokens in
// every layout ("reported positions move by exactly the inserted text").
func checkDiagnosticPositions(baseText, text string) error {
	raw := func(s string) (string, error) {
		var err error
		if perr := rec.Guard(func() { _, err = spec.Parse("t.ebnf", ref.Source(s)) }); perr != nil {
			return "", perr
		}
		if err == nil {
			return "", nil
		}
		return err.Error(), nil
	}
	bmsg, err := raw(baseText)
	if err != nil || bmsg == "" {
		return err
	}
	msg, err := raw(text)
	if err != nil {
		return err
	}
	want, got := positionsOf(baseText, bmsg), positionsOf(text, msg)
	for _, w := range want {
		if w < 0 {
			rec.Count("diagnostic_position_not_at_a_token", 1)
			return nil
		}
	}
	rec.Count("diagnostic_positions_compared", len(want))
	if fmt.Sprint(want) != fmt.Sprint(got) {
		return fmt.Errorf("the diagnostics name other tokens after re-laying out the text: token ordinals %v in the plain layout, %v in this layout\n--- plain layout:\n%s\n%s\n--- this layout:\n%s", want, got, baseText, bmsg, msg)
	}
	return nil
}

// checkDefinitionPositions: the position recorded for every terminal definition of an accepted specification names
// the same token in every layout.
func checkDefinitionPositions(baseText, text string) error {
	ordinals := func(s string) ([]string, error) {
		var sp *spec.Spec
		var err error
		if perr := rec.Guard(func() { sp, err = spec.Parse("t.ebnf", ref.Source(s)) }); perr != nil {
			return nil, perr
		}
		if err != nil || sp == nil {
			return nil, nil
		}
		toks, _, _ := scanner.Scan(s)
		var out []string
		for _, d := range sp.Definitions {
			if d.Pos == nil {
				out = append(out, fmt.Sprintf("%s:none", d.Terminal))
				continue
			}
			ord, found := 0, -1
			for _, tk := range toks {
				if tk.Kind == ";" {
					continue
				}
				if tk.Line == d.Pos.Line && tk.Col == d.Pos.Column && tk.Off == d.Pos.Offset {
					found = ord
					if tk.Kind != "TOKEN" || tk.Lexeme != string(d.Terminal) {
						// the definition of a declared token is recorded where its declaration starts (its name), whatever
						// stands between the name, the '=' and the value
						return nil, fmt.Errorf("the definition of %s is recorded at %d:%d, where the %s %q stands, not at the name of its declaration\ntext:\n%s", d.Terminal, tk.Line, tk.Col, tk.Kind, tk.Lexeme, s)
					}
				}
				ord++
			}
			out = append(out, fmt.Sprintf("%s:%d", d.Terminal, found))
		}
		return out, nil
	}
	want, err := ordinals(baseText)
	if err != nil || want == nil {
		return err
	}
	got, err := ordinals(text)
	if err != nil {
		return err
	}
	rec.Count("definition_positions_compared", len(want))
	if fmt.Sprint(want) != fmt.Sprint(got) {
		return fmt.Errorf("the positions recorded for the definitions name other tokens after re-laying out the text (terminal:token ordinal, -1 = no token starts there): %v in the plain layout, %v in this layout", want, got)
	}
	return nil
}

// seedDefect makes a model ill-formed in one of the documented ways (the result only has to be the same in every layout).
func seedDefect(t *rapid.T, m *ref.SpecModel) string {
	var start *ref.Decl
	for _, d := range m.Decls {
		if d.Kind == "rule" && d.Name == "start" {
			start = d
			break
		}
	}
	if start == nil {
		return "none"
	}
	add := func(x *ref.RHS) {
		switch {
		case start.RHS == nil:
			start.RHS = x
		case start.RHS.K == "cat":
			start.RHS.Subs = append(start.RHS.Subs, x)
		case start.RHS.K == "alt":
			start.RHS = &ref.RHS{K: "cat", Subs: []*ref.RHS{{K: "grp", Subs: []*ref.RHS{start.RHS}}, x}}
		default:
			start.RHS = &ref.RHS{K: "cat", Subs: []*ref.RHS{start.RHS, x}}
		}
	}
	kind := rapid.SampledFrom([]string{"undefined_token", "undefined_rule", "token_twice", "same_value", "bad_pattern", "two_defects"}).Draw(t, "defect")
	at := func() int { return rapid.IntRange(0, len(m.Decls)).Draw(t, "declAt") }
	insert := func(d *ref.Decl) {
		i := at()
		m.Decls = append(m.Decls[:i], append([]*ref.Decl{d}, m.Decls[i:]...)...)
	}
	switch kind {
	case "undefined_token":
		add(&ref.RHS{K: "tok", Name: "UNDEF"})
	case "undefined_rule":
		add(&ref.RHS{K: "nt", Name: "nowhere"})
	case "token_twice":
		if rapid.Bool().Draw(t, "predefinedTwice") {
			insert(&ref.Decl{Kind: "token", Name: "TWICE", TokKind: "predef", Text: "$ID", Semi: true})
			insert(&ref.Decl{Kind: "token", Name: "TWICE", TokKind: "predef", Text: "$NUMBER", Semi: true})
		} else {
			insert(&ref.Decl{Kind: "token", Name: "TWICE", TokKind: "string", Text: "one", Semi: true})
			insert(&ref.Decl{Kind: "token", Name: "TWICE", TokKind: "regex", Text: "tw+o", Semi: true})
		}
		add(&ref.RHS{K: "tok", Name: "TWICE"})
	case "same_value":
		insert(&ref.Decl{Kind: "token", Name: "SAME", TokKind: "string", Text: "a", Semi: true})
		add(&ref.RHS{K: "cat", Subs: []*ref.RHS{{K: "tok", Name: "SAME"}, {K: "str", Name: "a"}}})
	case "bad_pattern":
		insert(&ref.Decl{Kind: "token", Name: "BAD", TokKind: "regex", Text: "a{3,1}", Semi: true})
		add(&ref.RHS{K: "tok", Name: "BAD"})
	default:
		add(&ref.RHS{K: "tok", Name: "UNDEF"})
		add(&ref.RHS{K: "nt", Name: "nowhere"})
		insert(&ref.Decl{Kind: "token", Name: "UNKNOWN", TokKind: "predef", Text: "$NOPE", Semi: true})
	}
	m.FixSemis()
	return kind
}

func padding(kind, n int) string {
	switch {
	case n <= 0:
		return ""
	case kind == 0 || n < 4:
		return strings.Repeat(" ", n)
	case kind == 1:
		return "/*" + strings.Repeat("x", n-4) + "*/"
	case kind == 2:
		return strings.Repeat("\n", n)
	default:
		// comment lines of 64 characters
		var b strings.Builder
		for b.Len()+65 <= n {
			b.WriteString("//" + strings.Repeat("-", 62) + "\n")
		}
		b.WriteString(strings.Repeat(" ", n-b.Len()))
		return b.String()
	}
}

func nearBoundary(placed []ref.Tok, total int) bool {
	for _, t := range placed {
		for _, p := range []int{t.Off, t.Off + len(t.Src) - 1, t.Off + len(t.Src)} {
			m := p % 4096
			if p >= 4090 && (m >= 4094 || m <= 2) {
				return true
			}
		}
	}
	return false
}

type tb interface {
	Helper()
	Fatalf(string, ...any)
}

func runRendering(t tb, m *ref.SpecModel, baseText, baseSig string, toks []ref.Tok, seps []string, pad int, label string) {
	text, placed := ref.Render(toks, seps)
	if hazard(text) && reloadTolerated() {
		rec.Count("excluded_known_reload_alignment", 1)
		return
	}
	cls := []string{}
	near := nearBoundary(placed, len(text))
	if near {
		cls = append(cls, "token_at_buffer_boundary")
	}
	if !strings.HasSuffix(text, "\n") {
		cls = append(cls, "no_final_newline")
	}
	if len(text) > 4096 {
		cls = append(cls, "longer_than_one_half")
	}
	if len(text) > 8192 {
		cls = append(cls, "longer_than_the_buffer")
	}
	h := fmt.Sprintf("%d:%x", len(text), hashString(text))
	rec.Case(h, near || !strings.HasSuffix(text, "\n"), cls...)
	if len(text) < 400 {
		rec.Sample(label, text)
	} else {
		rec.Sample(label+"-long", fmt.Sprintf("%d bytes, padding %d: %s ... %s", len(text), pad, text[:60], text[len(text)-60:]))
	}
	err := checkRendering(baseSig, text, placed)
	if errors.Is(err, errStarved) {
		rec.Count("inconclusive_starved", 1)
		return
	}
	if err == nil && strings.HasPrefix(baseSig, "ERROR") {
		err = checkDiagnosticPositions(baseText, text)
	}
	if err == nil && !strings.HasPrefix(baseSig, "ERROR") && baseText != "" {
		err = checkDefinitionPositions(baseText, text)
	}
	if err != nil {
		rec.Fail(t, "rendering", input{Model: m, Base: baseText, Text: text, Pad: pad}, "%v\n(text of %d bytes, padding %d)", err, len(text), pad)
	}
}

func hashString(s string) uint64 {
	var h uint64 = 1469598103934665603
	for i := 0; i < len(s); i++ {
		h ^= uint64(s[i])
		h *= 1099511628211
	}
	return h
}

func opts() gen.SpecOpts {
	return gen.SpecOpts{MaxRules: 3, Depth: 3, Literals: []string{"a", "b", "+", `\"`}, Tokens: []string{"TK", "NUM"}, Directives: 2, RuleHandles: true, DupRules: true, EmptyRules: true}
}

func toggleSemis(t *rapid.T, m *ref.SpecModel) {
	m.NameSemi = rapid.Bool().Draw(t, "nameSemi")
	for _, d := range m.Decls {
		if d.Kind == "token" || d.Kind == "directive" {
			d.Semi = rapid.Bool().Draw(t, "semi")
		}
	}
	m.FixSemis()
}

func TestLayoutsAndPaddings(t *testing.T) {
	rec.Rule(rule + ruleMore)
	if reloadTolerated() {
		rec.Assume("listed finding buffer-half-reload (dependency): renderings in which the character that ends a lexeme is the last byte of a 4096-byte buffer half are not compared (counted as excluded_known_reload_alignment)")
	}
	rec.Check(t, 600, 24000, func(t *rapid.T) {
		m := gen.Spec(t, opts())
		defect := "none"
		if rapid.IntRange(0, 3).Draw(t, "illFormed") == 0 {
			defect = seedDefect(t, m)
		}
		rec.Count("specifications_with_defect_"+defect, 1)
		baseText := m.Text()
		baseSig, err := signature(baseText)
		if errors.Is(err, errStarved) {
			rec.Count("inconclusive_starved", 1)
			return
		}
		if err != nil {
			rec.Fail(t, "rendering", input{Model: m, Base: baseText, Text: baseText}, "%v", err)
		}
		// two independent layouts with independently chosen optional semicolons
		for k := 0; k < 2; k++ {
			toggleSemis(t, m)
			toks := m.Tokens()
			runRendering(t, m, baseText, baseSig, toks, gen.Seps(t, toks), 0, "layout")
		}
		// constructed padding: put a chosen token at a buffer-half boundary
		toggleSemis(t, m)
		toks := m.Tokens()
		seps := gen.Seps(t, toks)
		_, placed := ref.Render(toks, seps)
		for k := 0; k < 3; k++ {
			i := rapid.IntRange(0, len(toks)-1).Draw(t, "token")
			b := rapid.SampledFrom([]int{4096, 8192, 12288, 4096, 8192, 2048, 6144, 1024, 4096, 8192, 12288, 16384, 32768, 65536, 69632, 131072}).Draw(t, "boundary")
			delta := rapid.IntRange(-2, 2).Draw(t, "delta")
			anchor := rapid.SampledFrom([]string{"first", "last", "following"}).Draw(t, "anchor")
			at := placed[i].Off
			switch anchor {
			case "last":
				at += len(placed[i].Src) - 1
			case "following":
				at += len(placed[i].Src)
			}
			n := b + delta - at
			if n <= 0 {
				continue
			}
			gap := rapid.IntRange(0, i).Draw(t, "gap")
			if rapid.IntRange(0, 2).Draw(t, "leadingPad") == 0 {
				gap = 0
			}
			ps := append([]string{}, seps...)
			pad := padding(rapid.IntRange(0, 3).Draw(t, "padKind"), n)
			if rapid.Bool().Draw(t, "padFirst") {
				ps[gap] = pad + ps[gap]
			} else {
				ps[gap] = ps[gap] + pad
			}
			// the padding must keep separating the tokens it stands between
			if gap > 0 && gap < len(toks) && ref.NeedsSeparator(toks[gap-1], toks[gap]) && strings.TrimSpace(ps[gap]) == ps[gap] && !strings.ContainsAny(ps[gap], " \t\n/") {
				ps[gap] = " " + ps[gap]
			}
			runRendering(t, m, baseText, baseSig, toks, ps, n, "padded-"+anchor)
		}
	})
}

func TestPaddingSweep(t *testing.T) {
	rec.Begin(t)
	rec.Rule(rule + ruleMore)
	specs := []string{
		"grammar calc;\nNUM = /[0-9]+/\n@left \"*\" \"/\"\n@left \"+\" \"-\"\nstart = expr;\nexpr = expr (\"+\" | \"-\") expr | expr (\"*\" | \"/\") expr | \"(\" expr \")\" | NUM;\n",
		"grammar g\nID = $ID\nstart = {{ stmt }} ;\nstmt = ID \"=\" [ ID { \",\" ID } ] \";\" | \"if\" ID stmt | ;",
	}
	maxPad := 2*4096 + 64
	step := rec.Pick(29, 1)
	total := 0
	for si, base := range specs {
		baseSig, err := signature(base)
		if err != nil || strings.HasPrefix(baseSig, "ERROR") {
			t.Fatalf("harness: sweep specification %d is not accepted: %v %s", si, err, baseSig)
		}
		toks, lexErr, _ := scanner.Scan(base)
		if lexErr != nil {
			t.Fatalf("harness: sweep specification does not scan")
		}
		_ = toks
		for pad := rec.Shard() * step; pad <= maxPad; pad += step * rec.NShards() {
			for kind := 0; kind < 2; kind++ {
				// padding in front of the second line
				cut := strings.Index(base, "\n") + 1
				text := base[:cut] + padding(kind*3, pad) + base[cut:]
				total++
				if hazard(text) && reloadTolerated() {
					rec.Count("excluded_known_reload_alignment", 1)
					continue
				}
				want, _, _ := scanner.Scan(text)
				rec.Case(fmt.Sprintf("sweep%d:%d:%d", si, kind, pad), pad >= 4000, "padding_sweep")
				if err := checkRendering(baseSig, text, want); errors.Is(err, errStarved) {
					rec.Count("inconclusive_starved", 1)
				} else if err != nil {
					rec.Fail(t, "rendering", input{Base: base, Text: text, Pad: pad}, "specification %d with padding %d (kind %d): %v", si, pad, kind, err)
				}
			}
		}
	}
	rec.Count("sweep_renderings", total)
}

func TestReplay(t *testing.T) {
	if !rec.IsReplay() {
		t.Skip("not in replay mode")
	}
	_, raw, _ := rec.Replay()
	var in input
	if err := json.Unmarshal(raw, &in); err != nil {
		t.Fatal(err)
	}
	baseSig, err := signature(in.Base)
	if err != nil {
		rec.Fail(t, "rendering", in, "%v", err)
	}
	want, _, _ := scanner.Scan(in.Text)
	err = checkRendering(baseSig, in.Text, want)
	if err == nil && strings.HasPrefix(baseSig, "ERROR") {
		err = checkDiagnosticPositions(in.Base, in.Text)
	}
	if err != nil {
		rec.Fail(t, "rendering", in, "%v", err)
	}
}
