// Package c05 decides property C05: the EBNF scanner yields exactly the documented tokens, lexemes and positions.
package c05

import (
	"encoding/json"
	"errors"
	"fmt"
	"io"
	"strings"
	"testing"
	"unicode/utf8"

	"github.com/moorara/algo/lexer"
	"pgregory.net/rapid"

	ebnflexer "github.com/gardenbed/emerge/internal/ebnf/lexer"
	"github.com/gardenbed/emerge/internal/vh/rec"
	"github.com/gardenbed/emerge/internal/vh/ref"
)

func TestMain(m *testing.M) { rec.Main(m, "C05") }

// ruleMore describes what was added to the exploration in the build phase.
const ruleMore = "; single lexemes of 4000..8100 bytes of every kind; texts may start with white space and may contain byte sequences that are not UTF-8 (tokens that end before such a byte, and an error at the byte or at the start of the lexeme it ends, are required)"

const rule = "(1) the coded transition function against a reference automaton built from the documented token table: breadth-first exploration of all reachable (scanner state, reference state) pairs over every ASCII code point, " +
	"plus every non-ASCII code point of Unicode for every reachable scanner state (complete enumeration): dead iff dead, same token kind (keyword over identifier), lexeme trimming, skip vs lexeme; " +
	"(2) texts composed of valid tokens of every kind, near misses, comments and separators in any order, with and without final newline: the NextToken stream (kind, lexeme, offset, line, column; end of input or the lexical error and its position) " +
	"equals the reference scanner's; non-trivial = text with >=1 comment or near miss and >=3 tokens; distinct by text"

var scanner = ref.NewScanner()

// ---------- (1) transition function ----------

func TestTransitionFunctionExhaustive(t *testing.T) {
	rec.Begin(t)
	rec.Rule(rule + ruleMore)
	if rec.Shard() != 0 {
		t.Skip("seed independent: shard 0 only")
	}
	type pair struct {
		s int
		k string
	}
	type node struct {
		s  int
		rs ref.ScanState
		w  string
	}
	start := scanner.Start()
	seen := map[pair]bool{{0, start.Key()}: true}
	queue := []node{{0, start, ""}}
	implStates := map[int]string{0: ""}
	pairs, calls := 0, 0
	for len(queue) > 0 {
		nd := queue[0]
		queue = queue[1:]
		pairs++
		// evaluation of the state the scanner stopped in
		if nd.w != "" {
			want := scanner.Accepting(nd.rs)
			lex := nd.w
			tok := ebnflexer.VerifEvalDFA(nd.s, lex)
			single := len(nd.w) == 1 && nd.w[0] >= 'A' && nd.w[0] <= 'Z'
			switch {
			case want == nil:
				if tok.Terminal != ebnflexer.ERR {
					rec.Fail(t, "state", map[string]any{"state": nd.s, "text": nd.w}, "after %q (state %d) the scanner evaluates to %s, the documented tokens have none ending here", nd.w, nd.s, tok.Terminal)
				}
			case single:
				// documented contradiction (token table vs automaton): either way is accepted
			default:
				if string(tok.Terminal) != want.Name {
					rec.Fail(t, "state", map[string]any{"state": nd.s, "text": nd.w}, "after %q (state %d) the scanner evaluates to %s, the documented token is %s", nd.w, nd.s, tok.Terminal, want.Name)
				}
				wantLex := ""
				switch {
				case want.Skip:
					wantLex = ""
				case want.Trim:
					wantLex = nd.w[1 : len(nd.w)-1]
				default:
					wantLex = nd.w
				}
				if tok.Lexeme != wantLex {
					rec.Fail(t, "state", map[string]any{"state": nd.s, "text": nd.w}, "after %q (state %d) the %s token has lexeme %q, the source text gives %q", nd.w, nd.s, tok.Terminal, tok.Lexeme, wantLex)
				}
			}
		}
		for r := rune(0); r < 0x80; r++ {
			calls++
			ns := ebnflexer.VerifAdvanceDFA(nd.s, r)
			nrs := scanner.Next(nd.rs, r)
			dead := scanner.Dead(nrs)
			if (ns < 0) != dead {
				rec.Fail(t, "transition", map[string]any{"state": nd.s, "text": nd.w, "rune": int(r)}, "after %q (state %d) the scanner on %q goes to %d, but the documented tokens can continue: %v", nd.w, nd.s, r, ns, !dead)
			}
			if ns < 0 {
				continue
			}
			p := pair{ns, nrs.Key()}
			if !seen[p] {
				seen[p] = true
				w := nd.w + string(r)
				if _, ok := implStates[ns]; !ok {
					implStates[ns] = w
				}
				queue = append(queue, node{ns, nrs, w})
			}
		}
	}
	// no token contains a character outside of ASCII: every other code point of Unicode is dead in every state
	for s, w := range implStates {
		for r := rune(0x80); r <= 0x10FFFF; r++ {
			calls++
			if ns := ebnflexer.VerifAdvanceDFA(s, r); ns >= 0 {
				rec.Fail(t, "transition", map[string]any{"state": s, "text": w, "rune": int(r)}, "after %q (state %d) the scanner continues on U+%04X to state %d; no documented token contains that character", w, s, r, ns)
			}
		}
	}
	// states that no text reaches must not exist below the highest reachable one (reported, not a violation)
	maxState := 0
	for s := range implStates {
		if s > maxState {
			maxState = s
		}
	}
	rec.Evals(calls)
	rec.Count("transition_calls", calls)
	rec.Count("reachable_state_pairs", pairs)
	rec.Count("reachable_scanner_states", len(implStates))
	rec.Count("highest_scanner_state", maxState)
	rec.Distinct("transition-function")
	rec.Exhaustive(true)
}

// ---------- (2) streams ----------

type input struct {
	Text string `json:"text"`
	Raw  []byte `json:"raw,omitempty"` // the text when it is not UTF-8 (JSON strings cannot carry it)
}

func mkInput(text string) input {
	in := input{Text: text}
	if !utf8.ValidString(text) {
		in.Raw = []byte(text)
	}
	return in
}

type tokRec struct {
	Kind, Lexeme   string
	Off, Line, Col int
}

var lastLongText string

func scanImpl(text string) (toks []tokRec, lexErr string, err error) {
	perr := rec.Guard(func() {
		var l *ebnflexer.Lexer
		l, err = ebnflexer.New("t.ebnf", ref.Source(text))
		if err != nil {
			return
		}
		if len(text) > 4096 {
			// a scanner for another long text is created before this one is used: what this one reads is its own text
			if lastLongText != "" {
				_, _ = ebnflexer.New("other.ebnf", strings.NewReader(lastLongText))
			}
			lastLongText = text
		}
		for i := 0; i < len(text)+10; i++ {
			var tok lexer.Token
			tok, err = l.NextToken()
			if err != nil {
				if errors.Is(err, io.EOF) {
					err = nil
				} else {
					lexErr, err = err.Error(), nil
				}
				return
			}
			toks = append(toks, tokRec{string(tok.Terminal), tok.Lexeme, tok.Pos.Offset, tok.Pos.Line, tok.Pos.Column})
		}
		err = fmt.Errorf("the scanner does not reach the end of the input")
	})
	if perr != nil {
		return nil, "", perr
	}
	return
}

func checkText(text string) error {
	want, werr, single := scanner.Scan(text)
	if single {
		return nil // a single upper-case letter as TOKEN: documented contradiction, not compared
	}
	got, gerr, err := scanImpl(text)
	if err != nil {
		return fmt.Errorf("text %q: %v", text, err)
	}
	if bad, bl, bc, ok := ref.FirstInvalidUTF8(text); ok && werr != nil && werr.Off+len([]rune(werr.Text)) == bad {
		// the run is ended by a byte sequence that is not UTF-8: the reader reports it where it stands.  Whether a
		// lexeme that this byte ends is still delivered, and whether an unfinished lexeme is reported at its start or
		// at the byte, is not stated; tokens that end earlier and the presence and place of the error are.
		required := 0
		for _, w := range want {
			if w.Off+len([]rune(w.Src)) < bad {
				required++
			}
		}
		if len(got) < required || len(got) > len(want) {
			return fmt.Errorf("text %q: %d tokens before the invalid byte sequence at %d:%d, the documented scanner yields %d (%d of them end before it)", text, len(got), bl, bc, len(want), required)
		}
		for i, g := range got {
			w := want[i]
			if w.Kind != g.Kind || w.Lexeme != g.Lexeme || w.Off != g.Off || w.Line != g.Line || w.Col != g.Col {
				return fmt.Errorf("text %q: token %d is %s %q at %d:%d, the documented scanner yields %s %q at %d:%d", text, i, g.Kind, g.Lexeme, g.Line, g.Col, w.Kind, w.Lexeme, w.Line, w.Col)
			}
		}
		if gerr == "" {
			return fmt.Errorf("text %q: the byte sequence at %d:%d is not UTF-8, but the scanner reaches the end of the input without an error", text, bl, bc)
		}
		if !rec.MentionsPos(gerr, "t.ebnf", bl, bc) && !rec.MentionsPos(gerr, "t.ebnf", werr.Line, werr.Col) {
			return fmt.Errorf("text %q: the error is reported as %q; the invalid byte sequence is at t.ebnf:%d:%d, the lexeme it ends starts at t.ebnf:%d:%d", text, gerr, bl, bc, werr.Line, werr.Col)
		}
		return nil
	}
	for i := 0; i < len(want) || i < len(got); i++ {
		if i >= len(got) {
			return fmt.Errorf("text %q: token %d is missing: the documented scanner yields %s %q at %d:%d (scanner stopped with %q)", text, i, want[i].Kind, want[i].Lexeme, want[i].Line, want[i].Col, gerr)
		}
		if i >= len(want) {
			return fmt.Errorf("text %q: extra token %d: %s %q at %d:%d", text, i, got[i].Kind, got[i].Lexeme, got[i].Line, got[i].Col)
		}
		w, g := want[i], got[i]
		if w.Kind != g.Kind || w.Lexeme != g.Lexeme {
			return fmt.Errorf("text %q: token %d is %s %q, the documented scanner yields %s %q", text, i, g.Kind, g.Lexeme, w.Kind, w.Lexeme)
		}
		if w.Off != g.Off || w.Line != g.Line || w.Col != g.Col {
			return fmt.Errorf("text %q: token %d (%s %q) is reported at offset %d, %d:%d; its first character is at offset %d, %d:%d", text, i, g.Kind, g.Lexeme, g.Off, g.Line, g.Col, w.Off, w.Line, w.Col)
		}
	}
	switch {
	case werr == nil && gerr != "":
		return fmt.Errorf("text %q: the scanner reports %q, but the whole text consists of documented tokens", text, gerr)
	case werr != nil && gerr == "":
		return fmt.Errorf("text %q: the text at %d:%d (%q) is not a token, but the scanner reaches the end of the input without an error", text, werr.Line, werr.Col, werr.Text)
	case werr != nil:
		pos := fmt.Sprintf("t.ebnf:%d:%d", werr.Line, werr.Col)
		if !rec.MentionsPos(gerr, "t.ebnf", werr.Line, werr.Col) {
			return fmt.Errorf("text %q: the lexical error is reported as %q, the offending text %q starts at %s", text, gerr, werr.Text, pos)
		}
	}
	return nil
}

var validPieces = []string{"=", ";", "|", "(", ")", "[", "]", "{", "}", "{{", "}}", "<", ">", "@left", "@right", "@none", "grammar",
	"$WS", "$A_1", "$STRING", "x", "expr_1", "g", "gr", "gramma", "grammars", "grammar_", "g9", "AB", "A_", "T9", "NUM_2",
	`"a"`, `"if"`, `"\""`, `"\\"`, `"a\"b"`, `"say\""`, `"+="`, `"{{"`, `"//"`, `"/*"`,
	`/a/`, `/[a-z]+/`, `/a\/b/`, `/\//`, `/ /`, `/a*\//`, `/\\/`, `/x\*/`, `/(#|\/\/)/`, `/"([^"])*"/`,
	"// comment", "//", "// a */ b", "//*", "/* c */", "/**/", "/***/", "/* * */", "/* a **/", "/* a\n b */", "/*/*/", "/* // */", "/*\t*\r\n*/"}

var nearMisses = []string{"@lef", "@leftx", "@", "@Left", "$a", "$", "$1", `""`, `"abc`, `"a b"`, `"\`, "'x'", "/abc", "/ab\n/", "/* open", "/*/", "#", "%", "!", "\\", "^", "~", "`", ",", ".", ":", "?", "&", "+", "-", "*", "é", "\x0c", "\x01", "\x7f", "A", "_a", "9a", "a-b", "{{{", "}}}", "/*", "/", "\xff", "\xc3(", "ab\xfe", "\xe4\xb8",
	// the NUL character (the end marker of the reader the scanner uses) and its control picture
	"\x00", "a\x00", "\x00b", "\"a\x00\"", "// c \x00 d", "/* \x00 */", "\u2400", "x\x00\x00",
	// characters beyond U+00FF whose low byte is a character of the language
	"\u0120", "\u013b", "\u013d", "\u0122x\u0122", "\u012fa\u012f", "\u017b", "a\u0161", "\u0141B", "\u0130", "\u015f", "\u2120", "\U0001003d", "\u010a", "x\u0109y", "\u0140left"}

var separators = []string{" ", "  ", "\t", "\n", "\r\n", "\n\n", " \t ", "\r", ""}

func TestTokenStreams(t *testing.T) {
	rec.Rule(rule + ruleMore)
	rec.Assume("a single upper-case letter used as TOKEN is not compared (token table says TOKEN, the documented automaton says no token); texts stay below one buffer half (the listed dependency finding of C13 concerns alignments at 4096-byte boundaries)")
	rec.Check(t, 12000, 600000, func(t *rapid.T) {
		n := rapid.IntRange(0, 14).Draw(t, "pieces")
		var b strings.Builder
		b.WriteString(rapid.SampledFrom([]string{"", "", " ", "\n\n", "\t", "\r\n ", "\f", "\u00a0"}).Draw(t, "lead"))
		comments, misses := 0, 0
		for i := 0; i < n; i++ {
			k := rapid.IntRange(0, 9).Draw(t, "k")
			var piece string
			if k == 0 {
				piece = rapid.SampledFrom(nearMisses).Draw(t, "miss")
				misses++
			} else {
				piece = rapid.SampledFrom(validPieces).Draw(t, "piece")
				if strings.HasPrefix(piece, "//") || strings.HasPrefix(piece, "/*") {
					comments++
				}
			}
			b.WriteString(piece)
			b.WriteString(rapid.SampledFrom(separators).Draw(t, "sep"))
		}
		if rapid.Bool().Draw(t, "finalNewline") {
			b.WriteString("\n")
		}
		text := b.String()
		want, werr, _ := scanner.Scan(text)
		cls := []string{}
		if comments > 0 {
			cls = append(cls, "has_comment")
		}
		if misses > 0 {
			cls = append(cls, "has_near_miss")
		}
		if werr != nil {
			cls = append(cls, "lexical_error")
		}
		if !strings.HasSuffix(text, "\n") {
			cls = append(cls, "no_final_newline")
		}
		nt := (comments > 0 || misses > 0) && len(want) >= 3
		rec.Case(text, nt, cls...)
		if nt {
			rec.Sample(strings.Join(cls, ","), text)
		}
		if err := checkText(text); err != nil {
			rec.Fail(t, "text", mkInput(text), "%v", err)
		}
	})
}

func TestArbitraryPrintableTexts(t *testing.T) {
	rec.Rule(rule + ruleMore)
	alphabet := []rune("ab gr@$\"/\\*{}=;|<>()[]AZ_09\n\t'#é")
	rec.Check(t, 6000, 300000, func(t *rapid.T) {
		rs := rapid.SliceOfN(rapid.SampledFrom(alphabet), 0, 24).Draw(t, "text")
		text := string(rs)
		want, werr, _ := scanner.Scan(text)
		rec.Case(text, len(want) >= 3 && werr != nil, "arbitrary")
		if err := checkText(text); err != nil {
			rec.Fail(t, "text", mkInput(text), "%v", err)
		}
	})
}

func TestReplay(t *testing.T) {
	if !rec.IsReplay() {
		t.Skip("not in replay mode")
	}
	kind, raw, _ := rec.Replay()
	if kind != "text" {
		t.Skipf("replay kind %q is re-checked by the regular run (seed independent)", kind)
	}
	var in input
	if err := json.Unmarshal(raw, &in); err != nil {
		t.Fatal(err)
	}
	if in.Raw != nil {
		in.Text = string(in.Raw)
	}
	if err := checkText(in.Text); err != nil {
		rec.Fail(t, "text", in, "%v", err)
	}
}

// ---------- lexemes longer than one half of the reader's buffer ----------

const longLexemeKey = "lexeme-longer-than-the-buffer"

// TestLongLexemes: single tokens and comments of 4095..8100 bytes between two short tokens (the documented token
// table bounds no lexeme). Texts are shifted by leading blanks until no lexeme ends at the last byte of a buffer half
// (the class of the listed dependency finding of C13). Beyond the reader's whole buffer (2 x 4096 bytes) the
// dependency returns a corrupted lexeme: listed finding, probed here.
func TestLongLexemes(t *testing.T) {
	rec.Begin(t)
	rec.Rule(rule + ruleMore)
	if rec.Shard() != 0 {
		t.Skip("seed independent: shard 0 only")
	}
	mk := func(kind string, n int) string {
		switch kind {
		case "STRING":
			return `"` + strings.Repeat("ab", n/2) + `"`
		case "REGEX":
			return "/" + strings.Repeat("[a-z]|", n/6) + "x/"
		case "IDENT":
			return "i" + strings.Repeat("d_9", n/3)
		case "TOKEN":
			return "T" + strings.Repeat("K_9", n/3)
		case "PREDEF":
			return "$P" + strings.Repeat("D_9", n/3)
		case "LINE":
			return "// " + strings.Repeat("c ", n/2) + "\n"
		}
		return "/* " + strings.Repeat("c*", n/2) + " */"
	}
	// the listed finding: a lexeme that does not fit into the reader's buffer
	{
		lit := mk("STRING", 8400)
		toks, _, _ := scanImpl("x " + lit + " y")
		present := !(len(toks) == 3 && toks[1].Lexeme == lit[1:len(lit)-1])
		if rec.Known(longLexemeKey, present) {
			rec.Assume("listed finding " + longLexemeKey + ": lexemes stay below 8190 bytes")
		}
	}
	n := 0
	for _, kind := range []string{"STRING", "REGEX", "IDENT", "TOKEN", "PREDEF", "LINE", "BLOCK"} {
		for _, size := range []int{4000, 4095, 4096, 4097, 4200, 5000, 6000, 8000, 8100} {
			for _, lead := range []string{"x ", "x = ", "\n\n  grammar g; "} {
				var text string
				ok := false
				for shift := 0; shift < 12 && !ok; shift++ {
					text = strings.Repeat(" ", shift) + lead + mk(kind, size) + " y ;"
					ok = true
					for _, b := range scanner.Boundaries(text + "\n") {
						ok = ok && b%4096 != 4095
					}
				}
				if !ok {
					continue
				}
				n++
				rec.Case(text, true, "lexeme_longer_than_a_buffer_half", "long_"+kind)
				if err := checkText(text); err != nil {
					rec.Fail(t, "text", mkInput(text), "%v", err)
				}
			}
		}
	}
	rec.Count("long_lexeme_texts", n)
}

// ---------- native fuzz target (thorough tier; `go test -fuzz`) ----------

// FuzzScan submits arbitrary byte strings (coverage guided) to the same oracle as the generated texts.
func FuzzScan(f *testing.F) {
	for _, s := range []string{
		"grammar g;\nID = /[a-z]+/\n@left \"+\" <e = e e>\nstart = { \"a\" } [ ID ] {{ $WS }} ( x | ) ;\n",
		"/* a **/ // c\n\"a\\\"b\" /a\\/b/ @right @none $STRING A_1 gramma grammarx",
		"'x' \"\" $ $a @lef }}} /**/ /***/ /* ** / */ \"unterminated", "/x\\\\/ /[/]/ \xff A \xc3\xa9 \r\n\t",
	} {
		f.Add([]byte(s))
	}
	f.Fuzz(func(t *testing.T, data []byte) {
		if len(data) > 300 {
			return
		}
		text := string(data)
		if err := checkText(text); err != nil {
			rec.SetTest("FuzzScan")
			rec.WriteReplay("text", mkInput(text), err.Error())
			t.Fatalf("%v", err)
		}
	})
}
