// Package c07 decides property C07: a specification is rejected iff it is ill-formed, the diagnostics name real
// problems only, and every terminal of an accepted specification has exactly one definition.
package c07

import (
	"encoding/json"
	"fmt"
	"os"
	"os/exec"
	"path/filepath"
	"regexp"
	"sort"
	"strings"
	"sync"
	"testing"

	"github.com/moorara/algo/grammar"
	"pgregory.net/rapid"

	"github.com/gardenbed/emerge/internal/ebnf/parser/spec"
	"github.com/gardenbed/emerge/internal/vh/gen"
	"github.com/gardenbed/emerge/internal/vh/rec"
	"github.com/gardenbed/emerge/internal/vh/ref"
)

func TestMain(m *testing.M) { rec.Main(m, "C07") }

// ruleMore describes what was added to the exploration in the build phase.
const ruleMore = "; a token declared twice identically, and a production named in two levels through a later alternative of a non-leading rule handle, are among the seeded defects; half of the specifications are rendered in drawn layouts"

const (
	rule = "a well-formed specification model (tokens declared before/after use, unused tokens, tokens and literals used only in directives, directives interleaved) plus a drawn SET of seeded defects out of the eight documented kinds " +
		"(undefined token, token defined twice, two terminals with one value, unknown predefined name, invalid pattern, non-terminal without production, no start rule, handle in two precedence levels); " +
		"oracle: rejected (by spec.Parse, or by DFA() for invalid patterns) iff the model is ill-formed by the harness's own analysis of the model; every diagnostic, parsed by message template into (kind, subject), names a problem that is present; " +
		"on acceptance Definitions and Grammar.Terminals correspond one to one with the declared values; non-trivial = >=2 seeded defects, or zero defects with a token declared after use; distinct by specification text"
	conflationKey = "literal-token-conflation"
)

type input struct {
	Model   *ref.SpecModel `json:"model"`
	Spec    string         `json:"spec"`
	Defects []string       `json:"defects"`
}

// problems analyses the model itself and returns the set of problems present, as "kind:subject".
func problems(m *ref.SpecModel) (present map[string]bool, badPatterns map[string]bool) {
	present = map[string]bool{}
	badPatterns = map[string]bool{}
	type def struct{ kind, text string }
	defs := map[string][]def{}
	usedTok := map[string]bool{}
	usedLit := map[string]bool{}
	usedNT := map[string]bool{}
	heads := map[string]bool{}
	note := func(r *ref.RHS) {
		r.Walk(func(x *ref.RHS) {
			switch x.K {
			case "tok":
				usedTok[x.Name] = true
			case "str":
				usedLit[x.Name] = true
			case "nt":
				usedNT[x.Name] = true
			}
		})
	}
	handleLevels := map[string]map[int]bool{}
	level := 0
	for _, d := range m.Decls {
		switch d.Kind {
		case "token":
			switch d.TokKind {
			case "predef":
				if txt, ok := gen.PredefTexts[d.Text]; ok {
					defs[d.Name] = append(defs[d.Name], def{"regex", txt})
				} else {
					present["predef:"+d.Text] = true
					if _, ok := defs[d.Name]; !ok {
						defs[d.Name] = nil
					}
				}
			case "regex":
				defs[d.Name] = append(defs[d.Name], def{"regex", d.Text})
				if (strings.Contains(d.Text, "(") && !strings.Contains(d.Text, ")")) || !ref.IsPatternSentence(d.Text) {
					badPatterns[d.Name] = true
				}
			default:
				defs[d.Name] = append(defs[d.Name], def{"string", d.Text})
			}
		case "rule":
			heads[d.Name] = true
			usedNT[d.Name] = true
			note(d.RHS)
		case "directive":
			for _, h := range d.Handles {
				var keys []string
				if h.Term != nil {
					note(h.Term)
					keys = []string{h.Term.K + ":" + h.Term.Name}
				} else {
					heads[h.Rule.Name] = true
					usedNT[h.Rule.Name] = true
					note(h.Rule.RHS)
					// a rule handle stands for each production it expands to: one per top-level alternative
					alts := []*ref.RHS{h.Rule.RHS}
					if h.Rule.RHS != nil && h.Rule.RHS.K == "alt" {
						alts = h.Rule.RHS.Subs
					}
					for _, a := range alts {
						b, _ := json.Marshal(a)
						keys = append(keys, "rule:"+h.Rule.Name+":"+string(b))
					}
				}
				for _, key := range keys {
					if handleLevels[key] == nil {
						handleLevels[key] = map[int]bool{}
					}
					handleLevels[key][level] = true
				}
			}
			level++
		}
	}
	for t := range usedTok {
		if len(defs[t]) == 0 {
			present["undefined:"+t] = true
		}
	}
	for t, ds := range defs {
		if len(ds) == 0 && !usedTok[t] {
			// declared only with an unknown predefined name: the terminal has no definition either
			present["undefined:"+t] = true
		}
		if len(ds) > 1 {
			present["multiple:"+t] = true
		}
	}
	byValue := map[string][]string{}
	for l := range usedLit {
		byValue[l] = append(byValue[l], l)
	}
	for t, ds := range defs {
		if len(ds) == 1 {
			byValue[ds[0].text] = append(byValue[ds[0].text], t)
		}
	}
	for v, ts := range byValue {
		if len(ts) > 1 {
			present["samevalue:"+v] = true
		}
	}
	for n := range usedNT {
		if !heads[n] {
			present["noprod:"+n] = true
		}
	}
	if !heads["start"] {
		present["nostart"] = true
	}
	for k, lv := range handleLevels {
		if len(lv) > 1 {
			present["handle:"+k] = true
		}
	}
	for t := range badPatterns {
		present["pattern:"+t] = true
	}
	return
}

var (
	reNoDef    = regexp.MustCompile(`no definition for terminal "((?:[^"\\]|\\.)*)"`)
	reMulti    = regexp.MustCompile(`multiple definitions for terminal "((?:[^"\\]|\\.)*)"`)
	reSame     = regexp.MustCompile(`multiple definitions with the same value: ("(?:[^"\\]|\\.)*")`)
	rePredef   = regexp.MustCompile(`invalid predefined regex: (\S+)`)
	reNoProd   = regexp.MustCompile(`no production rule for non-terminal symbol (\S+)`)
	reStart    = regexp.MustCompile(`missing production rule with the start symbol|no production rule for start symbol|start symbol \S+ not in the set`)
	reLevel    = regexp.MustCompile(`(.*) appeared in more than one precedence level`)
	reBullet   = regexp.MustCompile(`(?m)^\s*[•*-] (.*)$`)
	rePosLine  = regexp.MustCompile(`^\s+\S+:\d+:\d+`)
)

// reported parses the diagnostics into (kind:subject) pairs; unknown lines are returned separately.
func reported(msg string) (pairs []string, unknown []string) {
	for _, line := range strings.Split(msg, "\n") {
		l := strings.TrimSpace(line)
		l = strings.TrimLeft(l, "•*- ")
		switch {
		case l == "" || strings.HasSuffix(l, "error occurred:") || strings.HasSuffix(l, "errors occurred:") || rePosLine.MatchString(line) || strings.HasPrefix(l, "<nil>") || regexp.MustCompile(`^\S+:\d+:\d+(: .*)?$`).MatchString(l):
		case reNoDef.MatchString(l):
			pairs = append(pairs, "undefined:"+unq(reNoDef.FindStringSubmatch(l)[1]))
		case reMulti.MatchString(l):
			pairs = append(pairs, "multiple:"+unq(reMulti.FindStringSubmatch(l)[1]))
		case reSame.MatchString(l):
			v := reSame.FindStringSubmatch(l)[1]
			var s string
			if _, err := fmt.Sscanf(v, "%q", &s); err != nil {
				s = strings.Trim(v, `"`)
			}
			pairs = append(pairs, "samevalue:"+s)
		case rePredef.MatchString(l):
			pairs = append(pairs, "predef:"+rePredef.FindStringSubmatch(l)[1])
		case reNoProd.MatchString(l):
			pairs = append(pairs, "noprod:"+reNoProd.FindStringSubmatch(l)[1])
		case reStart.MatchString(l):
			pairs = append(pairs, "nostart")
		case reLevel.MatchString(l):
			pairs = append(pairs, "handle:"+reLevel.FindStringSubmatch(l)[1])
		default:
			unknown = append(unknown, line)
		}
	}
	return
}

func unq(s string) string {
	var out string
	if _, err := fmt.Sscanf(`"`+s+`"`, "%q", &out); err == nil {
		return out
	}
	return s
}

func keys(m map[string]bool) []string {
	var out []string
	for k := range m {
		out = append(out, k)
	}
	sort.Strings(out)
	return out
}

// checkModel is the oracle.
func checkModel(m *ref.SpecModel, src string) (rejected bool, err error) {
	present, bad := problems(m)
	structural := map[string]bool{}
	for k := range present {
		if !strings.HasPrefix(k, "pattern:") {
			structural[k] = true
		}
	}
	var sp *spec.Spec
	var perr error
	if g := rec.Guard(func() { sp, perr = spec.Parse("t.ebnf", ref.Source(src)) }); g != nil {
		return false, fmt.Errorf("%v\nspecification:\n%s", g, src)
	}
	if perr == nil && sp == nil {
		return false, fmt.Errorf("spec.Parse returned neither a specification nor an error\nspecification:\n%s", src)
	}
	if len(structural) == 0 && perr != nil {
		return true, fmt.Errorf("a well-formed specification is rejected: %v\nspecification:\n%s", perr, src)
	}
	if len(structural) > 0 && perr == nil {
		return false, fmt.Errorf("the specification is ill-formed (%v) but it is accepted\nspecification:\n%s", keys(structural), src)
	}
	if perr != nil {
		pairs, unknown := reported(perr.Error())
		if len(unknown) > 0 {
			// wording the harness does not know: not judged (counted), the subject test below still applies
			rec.Count("diagnostic_lines_not_recognised", len(unknown))
		}
		if len(pairs) == 0 {
			// no recognised message: at least the subject of one present problem must be named
			named := false
			for k := range present {
				subject := k[strings.Index(k, ":")+1:]
				if k == "nostart" {
					subject = "start"
				}
				if strings.HasPrefix(k, "handle:") {
					subject = subject[strings.Index(subject, ":")+1:]
				}
				named = named || (subject != "" && strings.Contains(perr.Error(), subject))
			}
			if !named {
				return true, fmt.Errorf("the specification is rejected without naming any of the problems present (%v): %v\nspecification:\n%s", keys(present), perr, src)
			}
		}
		for _, p := range pairs {
			ok := present[p]
			if strings.HasPrefix(p, "handle:") {
				// the subject is printed in the library's own notation; any handle problem present justifies it
				for k := range present {
					ok = ok || strings.HasPrefix(k, "handle:")
				}
			}
			if !ok {
				return true, fmt.Errorf("the diagnostics name the problem %q, which is not present (present: %v)\nfull message: %v\nspecification:\n%s", p, keys(present), perr, src)
			}
		}
		return true, nil
	}
	// accepted: invalid patterns are found when the scanner automaton is built
	var derr error
	if g := rec.Guard(func() { _, _, derr = sp.DFA() }); g != nil {
		if rec.QueuePanic(g) {
			return false, nil // listed dependency finding, identified by its call site
		}
		return false, fmt.Errorf("%v\nspecification:\n%s", g, src)
	}
	invalid := derr != nil && strings.Contains(derr.Error(), "invalid regular expression")
	if len(bad) > 0 && !invalid {
		return false, fmt.Errorf("the pattern of %v is invalid, but neither spec.Parse nor DFA() reports it (DFA error: %v)\nspecification:\n%s", keys(bad), derr, src)
	}
	if len(bad) == 0 && derr != nil && !invalid && !strings.Contains(strings.ToLower(derr.Error()), "conflict") {
		return false, fmt.Errorf("every pattern of the specification is valid, but DFA() reports: %v\nspecification:\n%s", derr, src)
	}
	if len(bad) == 0 && invalid {
		return false, fmt.Errorf("DFA() reports an invalid pattern although every pattern is valid: %v\nspecification:\n%s", derr, src)
	}
	if invalid {
		for t := range bad {
			if !strings.Contains(derr.Error(), fmt.Sprintf("%q", t)) {
				return true, fmt.Errorf("DFA() does not name the token %s whose pattern is invalid: %v\nspecification:\n%s", t, derr, src)
			}
		}
	}
	// one definition per terminal, carrying the declared value
	want := map[string][2]string{} // terminal -> (value, kind)
	for _, d := range m.Decls {
		if d.Kind == "token" {
			switch d.TokKind {
			case "predef":
				want[d.Name] = [2]string{gen.PredefTexts[d.Text], "regex"}
			case "regex":
				want[d.Name] = [2]string{d.Text, "regex"}
			default:
				want[d.Name] = [2]string{d.Text, "string"}
			}
		}
	}
	lits := map[string]bool{}
	collect := func(r *ref.RHS) {
		r.Walk(func(x *ref.RHS) {
			if x.K == "str" {
				lits[x.Name] = true
			}
		})
	}
	for _, r := range m.Rules() {
		collect(r.RHS)
	}
	for _, d := range m.Decls {
		for _, h := range d.Handles {
			if h.Term != nil {
				collect(h.Term)
			}
		}
	}
	for l := range lits {
		want[l] = [2]string{l, "string"}
	}
	got := map[string]int{}
	for _, d := range sp.Definitions {
		name := string(d.Terminal)
		got[name]++
		w, ok := want[name]
		if !ok {
			return false, fmt.Errorf("Definitions has an entry for %q, which is not a terminal of the specification\nspecification:\n%s", name, src)
		}
		kind := "string"
		if d.IsRegex {
			kind = "regex"
		}
		if d.Value != w[0] || kind != w[1] {
			return false, fmt.Errorf("terminal %q is defined as %s %q, the specification declares %s %q\nspecification:\n%s", name, kind, d.Value, w[1], w[0], src)
		}
	}
	for name := range want {
		if got[name] != 1 {
			return false, fmt.Errorf("terminal %q has %d definitions in Definitions, it must have exactly one\nspecification:\n%s", name, got[name], src)
		}
		if !sp.Grammar.Terminals.Contains(grammarTerminal(name)) {
			return false, fmt.Errorf("terminal %q is missing from the terminals of the grammar\nspecification:\n%s", name, src)
		}
	}
	if sp.Grammar.Terminals.Size() != len(want) {
		return false, fmt.Errorf("the grammar has %d terminals, the specification has %d\nspecification:\n%s", sp.Grammar.Terminals.Size(), len(want), src)
	}
	return invalid, nil
}

// ---------- defect seeding ----------

var defectKinds = []string{"undefined", "multiple", "samevalue", "predef", "pattern", "noprod", "nostart", "handle"}

func firstRule(m *ref.SpecModel) *ref.Decl {
	for _, d := range m.Decls {
		if d.Kind == "rule" {
			return d
		}
	}
	return nil
}

func appendAlt(r *ref.Decl, leaf *ref.RHS) {
	switch {
	case r.RHS == nil:
		r.RHS = leaf
	case r.RHS.K == "alt":
		subs := r.RHS.Subs
		if subs[len(subs)-1].K == "empty" {
			r.RHS.Subs = append(append(append([]*ref.RHS{}, subs[:len(subs)-1]...), leaf), subs[len(subs)-1])
		} else {
			r.RHS.Subs = append(subs, leaf)
		}
	default:
		r.RHS = &ref.RHS{K: "alt", Subs: []*ref.RHS{r.RHS, leaf}}
	}
}

func insertAt(t *rapid.T, m *ref.SpecModel, d *ref.Decl, label string) {
	pos := rapid.IntRange(0, len(m.Decls)).Draw(t, label)
	m.Decls = append(m.Decls[:pos], append([]*ref.Decl{d}, m.Decls[pos:]...)...)
}

func seed(t *rapid.T, m *ref.SpecModel, kind string, i int) {
	switch kind {
	case "undefined":
		name := fmt.Sprintf("UNDEF%d", i)
		if rapid.Bool().Draw(t, "inDirective") {
			insertAt(t, m, &ref.Decl{Kind: "directive", Assoc: "@left", Semi: true, Handles: []*ref.Handle{{Term: &ref.RHS{K: "tok", Name: name}}}}, "pos")
		} else {
			appendAlt(firstRule(m), &ref.RHS{K: "tok", Name: name})
		}
	case "multiple":
		name := fmt.Sprintf("MULTI%d", i)
		k1 := rapid.SampledFrom([]string{"string", "string", "regex"}).Draw(t, "k1")
		k2 := rapid.SampledFrom([]string{"string", "regex"}).Draw(t, "k2")
		text2 := fmt.Sprintf("m%db", i)
		if rapid.IntRange(0, 2).Draw(t, "identicalRedeclaration") == 0 {
			k2, text2 = k1, fmt.Sprintf("m%da", i) // the very same declaration twice
		}
		insertAt(t, m, &ref.Decl{Kind: "token", Name: name, TokKind: k1, Text: fmt.Sprintf("m%da", i), Semi: true}, "pos1")
		insertAt(t, m, &ref.Decl{Kind: "token", Name: name, TokKind: k2, Text: text2, Semi: true}, "pos2")
		if rapid.Bool().Draw(t, "used") {
			appendAlt(firstRule(m), &ref.RHS{K: "tok", Name: name})
		}
	case "samevalue":
		v := fmt.Sprintf("same%d", i)
		switch rapid.IntRange(0, 3).Draw(t, "variant") {
		case 3: // a token declared by a predefined name and a pattern token spelled exactly as its documented pattern
			var names []string
			for n, text := range gen.PredefTexts {
				if !strings.Contains(text, "/") && !strings.Contains(text, "\n") {
					names = append(names, n)
				}
			}
			sort.Strings(names)
			name := rapid.SampledFrom(names).Draw(t, "predefName")
			insertAt(t, m, &ref.Decl{Kind: "token", Name: fmt.Sprintf("SVA%d", i), TokKind: "predef", Text: name, Semi: true}, "pos1")
			insertAt(t, m, &ref.Decl{Kind: "token", Name: fmt.Sprintf("SVB%d", i), TokKind: "regex", Text: gen.PredefTexts[name], Semi: true}, "pos2")
		case 0: // two named string tokens
			insertAt(t, m, &ref.Decl{Kind: "token", Name: fmt.Sprintf("SVA%d", i), TokKind: "string", Text: v, Semi: true}, "pos1")
			insertAt(t, m, &ref.Decl{Kind: "token", Name: fmt.Sprintf("SVB%d", i), TokKind: "string", Text: v, Semi: true}, "pos2")
		case 1: // a named token and a literal used in a rule
			insertAt(t, m, &ref.Decl{Kind: "token", Name: fmt.Sprintf("SVA%d", i), TokKind: rapid.SampledFrom([]string{"string", "regex"}).Draw(t, "k"), Text: v, Semi: true}, "pos1")
			appendAlt(firstRule(m), &ref.RHS{K: "str", Name: v})
		default: // two patterns with the same text
			insertAt(t, m, &ref.Decl{Kind: "token", Name: fmt.Sprintf("SVA%d", i), TokKind: "regex", Text: v + "+", Semi: true}, "pos1")
			insertAt(t, m, &ref.Decl{Kind: "token", Name: fmt.Sprintf("SVB%d", i), TokKind: "regex", Text: v + "+", Semi: true}, "pos2")
		}
	case "predef":
		name := fmt.Sprintf("PD%d", i)
		insertAt(t, m, &ref.Decl{Kind: "token", Name: name, TokKind: "predef", Text: rapid.SampledFrom([]string{"$NOPE", "$ID2", "$WS_", "$DIGITS"}).Draw(t, "pname"), Semi: true}, "pos")
		switch rapid.IntRange(0, 2).Draw(t, "variant") {
		case 0:
			appendAlt(firstRule(m), &ref.RHS{K: "tok", Name: name})
		case 1: // a second, valid declaration of the same token
			insertAt(t, m, &ref.Decl{Kind: "token", Name: name, TokKind: "string", Text: fmt.Sprintf("pd%d", i), Semi: true}, "pos2")
		}
	case "pattern":
		name := fmt.Sprintf("BP%d", i)
		insertAt(t, m, &ref.Decl{Kind: "token", Name: name, TokKind: "regex", Text: rapid.SampledFrom([]string{"a(b", "x(", "(a|b", "[a-z](+", "a)", "]x", "=>)", "end}", "x]y", "a{2", "[a-z", "a{2,1})", "[z-a", "[9-0](", "b{3,2}[c"}).Draw(t, "bad") + fmt.Sprint(i), Semi: true}, "pos")
		if rapid.Bool().Draw(t, "used") {
			appendAlt(firstRule(m), &ref.RHS{K: "tok", Name: name})
		}
	case "noprod":
		appendAlt(firstRule(m), &ref.RHS{K: "nt", Name: fmt.Sprintf("nowhere%d", i)})
	case "nostart":
		rename := func(r *ref.RHS) {
			r.Walk(func(x *ref.RHS) {
				if x.K == "nt" && x.Name == "start" {
					x.Name = "begin"
				}
			})
		}
		for _, d := range m.Decls {
			if d.Kind == "rule" && d.Name == "start" {
				d.Name = "begin"
			}
			rename(d.RHS)
			for _, h := range d.Handles {
				if h.Rule != nil {
					if h.Rule.Name == "start" {
						h.Rule.Name = "begin"
					}
					rename(h.Rule.RHS)
				}
			}
		}
	case "handle":
		if r := firstRule(m); r != nil && rapid.IntRange(0, 2).Draw(t, "productionHandle") == 0 {
			// the same production in two levels: once as a later alternative of a rule handle that is not the first
			// handle of its directive, once alone
			bin := func(op string) *ref.RHS {
				return &ref.RHS{K: "cat", Subs: []*ref.RHS{{K: "nt", Name: r.Name}, {K: "str", Name: fmt.Sprintf("%s%d", op, i)}, {K: "nt", Name: r.Name}}}
			}
			both := &ref.Decl{Kind: "rule", Name: r.Name, RHS: &ref.RHS{K: "alt", Subs: []*ref.RHS{bin("hp"), bin("hm")}}}
			one := &ref.Decl{Kind: "rule", Name: r.Name, RHS: bin(rapid.SampledFrom([]string{"hm", "hp"}).Draw(t, "repeated"))}
			first := []*ref.Handle{{Rule: both}}
			if rapid.Bool().Draw(t, "notLeading") {
				first = []*ref.Handle{{Term: &ref.RHS{K: "str", Name: fmt.Sprintf("hx%d", i)}}, {Rule: both}}
			}
			insertAt(t, m, &ref.Decl{Kind: "directive", Assoc: "@left", Semi: true, Handles: first}, "pos1")
			insertAt(t, m, &ref.Decl{Kind: "directive", Assoc: "@right", Semi: true, Handles: []*ref.Handle{{Rule: one}}}, "pos2")
			return
		}
		if r := firstRule(m); r != nil && rapid.IntRange(0, 3).Draw(t, "emptyHandle") == 0 {
			// the empty production of a rule named in two levels
			insertAt(t, m, &ref.Decl{Kind: "directive", Assoc: "@left", Semi: true, Handles: []*ref.Handle{{Rule: &ref.Decl{Kind: "rule", Name: r.Name}}}}, "pos1")
			insertAt(t, m, &ref.Decl{Kind: "directive", Assoc: "@right", Semi: true, Handles: []*ref.Handle{{Term: &ref.RHS{K: "str", Name: fmt.Sprintf("he%d", i)}}, {Rule: &ref.Decl{Kind: "rule", Name: r.Name}}}}, "pos2")
			return
		}
		lit := fmt.Sprintf("h%d", i)
		insertAt(t, m, &ref.Decl{Kind: "directive", Assoc: "@left", Semi: true, Handles: []*ref.Handle{{Term: &ref.RHS{K: "str", Name: lit}}}}, "pos1")
		insertAt(t, m, &ref.Decl{Kind: "directive", Assoc: rapid.SampledFrom([]string{"@left", "@right", "@none"}).Draw(t, "assoc"), Semi: true, Handles: []*ref.Handle{{Term: &ref.RHS{K: "str", Name: "+"}}, {Term: &ref.RHS{K: "str", Name: lit}}}}, "pos2")
	}
}

// ---------- known finding ----------

var probeOnce sync.Once
var conflationKnown bool

func conflation() bool {
	probeOnce.Do(func() {
		var sp *spec.Spec
		var err error
		g := rec.Guard(func() { sp, err = spec.Parse("t.ebnf", strings.NewReader("grammar g;\nAB = \"x\";\nstart = AB \"AB\";\n")) })
		present := g != nil || err != nil || sp == nil || len(sp.Definitions) != 2
		conflationKnown = rec.Known(conflationKey, present)
	})
	return conflationKnown
}

func conflates(m *ref.SpecModel) bool {
	toks, lits := map[string]bool{}, map[string]bool{}
	note := func(r *ref.RHS) {
		r.Walk(func(x *ref.RHS) {
			if x.K == "tok" {
				toks[x.Name] = true
			}
			if x.K == "str" {
				lits[x.Name] = true
			}
		})
	}
	for _, d := range m.Decls {
		if d.Kind == "token" {
			toks[d.Name] = true
		}
		note(d.RHS)
		for _, h := range d.Handles {
			if h.Term != nil {
				note(h.Term)
			} else {
				note(h.Rule.RHS)
			}
		}
	}
	for l := range lits {
		if toks[l] {
			return true
		}
	}
	return false
}

func TestSeededDefects(t *testing.T) {
	rec.Rule(rule + ruleMore)
	rec.Assume("diagnostics are recognised by their message templates; a diagnostic that is a consequence of a seeded defect (e.g. a token declared only with an unknown predefined name has no definition) counts as present; token conflicts reported by DFA() belong to C03 and are ignored here")
	rec.Check(t, 10000, 160000, func(t *rapid.T) {
		lits := []string{"a", "b", "+", "if", `q\"`, `\\`}
		if rapid.IntRange(0, 24).Draw(t, "conflatingLiteral") == 0 {
			lits = append(lits, "TK")
		}
		m := gen.Spec(t, gen.SpecOpts{MaxRules: 3, Depth: 2, Literals: lits, Tokens: []string{"TK", "NUM", "ID"}, Directives: 2, RuleHandles: true, DupRules: true, EmptyRules: true})
		// named string tokens whose text ends in an escaped quotation mark or a backslash (values are the text as written)
		for _, d := range m.Decls {
			if d.Kind == "token" && d.TokKind == "string" && rapid.IntRange(0, 2).Draw(t, "escapedEnd") == 0 {
				d.Text = rapid.SampledFrom([]string{`\"`, `z\"\"`, `y\\`, `w\"`}).Draw(t, "tokenText")
			}
		}
		// patterns that begin or end with a blank (a blank is a pattern character like any other)
		for _, d := range m.Decls {
			if d.Kind == "token" && d.TokKind == "regex" && rapid.IntRange(0, 3).Draw(t, "blankEnd") == 0 {
				d.Text = rapid.SampledFrom([]string{" ", "", " "}).Draw(t, "lead") + d.Text + rapid.SampledFrom([]string{" ", "  ", ""}).Draw(t, "trail")
			}
		}
		var seeded []string
		nd := rapid.SampledFrom([]int{0, 0, 0, 1, 1, 2, 2, 3}).Draw(t, "ndefects")
		for i := 0; i < nd; i++ {
			k := rapid.SampledFrom(defectKinds).Draw(t, "defect")
			seed(t, m, k, i)
			seeded = append(seeded, k)
		}
		m.FixSemis()
		if conflates(m) && conflation() {
			rec.Count("excluded_known_literal_token_conflation_class", 1)
			return
		}
		src := m.Text()
		if rapid.Bool().Draw(t, "drawnLayout") {
			toks := m.Tokens()
			src, _ = ref.Render(toks, gen.Seps(t, toks))
		}
		afterUse := false
		usedSoFar := map[string]bool{}
		for _, d := range m.Decls {
			if d.Kind == "token" && usedSoFar[d.Name] {
				afterUse = true
			}
			if d.Kind == "rule" {
				d.RHS.Walk(func(x *ref.RHS) {
					if x.K == "tok" {
						usedSoFar[x.Name] = true
					}
				})
			}
		}
		rejected, err := checkModel(m, src)
		cls := []string{fmt.Sprintf("defects_%d", nd)}
		for _, k := range seeded {
			cls = append(cls, "seeded_"+k)
		}
		if afterUse {
			cls = append(cls, "token_declared_after_use")
		}
		if rejected {
			cls = append(cls, "rejected")
		} else {
			cls = append(cls, "accepted")
		}
		nt := nd >= 2 || (nd == 0 && afterUse)
		rec.Case(src, nt, cls...)
		if nt {
			rec.Sample(fmt.Sprintf("defects=%v", seeded), src)
		}
		if err != nil {
			rec.Fail(t, "model", input{Model: m, Spec: src, Defects: seeded}, "%v", err)
		}
	})
}

func TestCLIExitStatus(t *testing.T) {
	rec.Begin(t)
	if rec.Shard() != 0 {
		t.Skip("shard 0 only")
	}
	bin := os.Getenv("VERIF_EMERGE_BIN")
	if _, err := os.Stat(bin); err != nil {
		t.Skip("emerge binary not built")
	}
	cases := map[string]bool{
		"grammar g;\nstart = \"a\" ID;\nID = $ID\n":                    true,
		"grammar g;\nstart = \"a\" ID;\n":                               false,
		"grammar g;\nstart = \"a\";\nID = $IDX\n":                       false,
		"grammar g;\nstart = \"a\" ID;\nID = /a(/\n":                    false,
		"grammar g;\nbegin = \"a\";\n":                                  false,
		"grammar g;\nstart = \"a\" x;\n":                                false,
		"grammar g;\nAA = \"x\"\nBB = \"x\"\nstart = AA BB;\n":          false,
		"grammar g;\n@left \"a\"\n@right \"a\"\nstart = \"a\";\n":       false,
		"grammar g;\nAA = \"x\"\nAA = \"y\"\nstart = AA;\n":             false,
		// well-formed: a string that spells a predefined name next to the token declared by it; ranges of one character
		"grammar g;\nID = $ID\nstart = ID \"$ID\" \"$DIGIT\";\n":            true,
		"grammar g;\nZERO = /[0-0]+/\nAA = /[\\x41-\\x41]x/\nstart = ZERO AA;\n": true,
		"grammar g;\nDIGIT = $DIGIT\nNUM = /[0-9]/\nstart = DIGIT NUM;\n":    false,
	}
	for src, ok := range cases {
		dir := t.TempDir()
		file := filepath.Join(dir, "g.ebnf")
		if err := os.WriteFile(file, []byte(src), 0o644); err != nil {
			t.Fatal(err)
		}
		cmd := exec.Command(bin, "-out", dir, file)
		cmd.Dir = dir
		out, err := cmd.CombinedOutput()
		code := 0
		if ee, isExit := err.(*exec.ExitError); isExit {
			code = ee.ExitCode()
		} else if err != nil {
			t.Fatalf("cannot run emerge: %v", err)
		}
		rec.Case("cli:"+src, !ok, "cli")
		if ok != (code == 0) {
			rec.Fail(t, "cli", map[string]string{"spec": src}, "emerge exits with status %d for a specification that is well-formed=%v:\n%s\noutput:\n%s", code, ok, src, out)
		}
	}
}

func TestReplay(t *testing.T) {
	if !rec.IsReplay() {
		t.Skip("not in replay mode")
	}
	kind, raw, _ := rec.Replay()
	if kind != "model" {
		t.Skipf("replay kind %q is re-checked by the regular run", kind)
	}
	var in input
	if err := json.Unmarshal(raw, &in); err != nil {
		t.Fatal(err)
	}
	if _, err := checkModel(in.Model, in.Spec); err != nil {
		rec.Fail(t, "model", in, "%v", err)
	}
}

func grammarTerminal(s string) grammar.Terminal { return grammar.Terminal(s) }
