// Package c14 decides property C14: no input crashes or hangs emerge; failures are errors and clean non-zero exits.
package c14

import (
	"bytes"
	"encoding/json"
	"errors"
	"fmt"
	"os"
	"os/exec"
	"path/filepath"
	"regexp"
	"strconv"
	"strings"
	"sync"
	"testing"
	"time"
	"unicode/utf8"

	"github.com/moorara/algo/grammar"
	"pgregory.net/rapid"

	"github.com/gardenbed/charm/ui"
	ebnf "github.com/gardenbed/emerge/internal/ebnf/parser"
	east "github.com/gardenbed/emerge/internal/ebnf/parser/ast"
	"github.com/gardenbed/emerge/internal/ebnf/parser/spec"
	"github.com/gardenbed/emerge/internal/generate/golang"
	rast "github.com/gardenbed/emerge/internal/regex/parser/ast"
	"github.com/gardenbed/emerge/internal/regex/parser/nfa"
	"github.com/gardenbed/emerge/internal/vh/emit"
	"github.com/gardenbed/emerge/internal/vh/gen"
	"github.com/gardenbed/emerge/internal/vh/rec"
	"github.com/gardenbed/emerge/internal/vh/ref"
)

func TestMain(m *testing.M) {
	if c := os.Getenv("VERIF_C14_CHILD"); c != "" {
		// child mode: run the oracle on one input in a process of its own (see watchdog)
		kind, file, _ := strings.Cut(c, ":")
		data, err := os.ReadFile(file)
		if err != nil {
			fmt.Println(err)
			os.Exit(9)
		}
		var cerr error
		out := map[string]string{}
		if kind == "spec" {
			_, _, cerr = checkSpec(data)
		} else {
			var acc bool
			acc, cerr = checkPattern(string(data))
			out["accepted"] = fmt.Sprint(acc)
		}
		if cerr != nil {
			out["err"] = cerr.Error()
		}
		_ = json.NewEncoder(os.Stdout).Encode(out)
		os.Exit(0)
	}
	rec.Main(m, "C14")
}

// ruleMore describes what was added to the exploration in the build phase.
const ruleMore = "; one specimen per semantic diagnostic in several declaration orders; invalid repetition ranges with lower bounds of billions (in a child process under an address-space limit)"

const (
	rule = "inputs: (a) valid specifications mutated at token level (deletion, duplication, replacement) and byte level (truncation at any byte, byte replacement incl. NUL, non-UTF-8 and control bytes), arbitrary byte strings; " +
		"(b) pattern strings over the metacharacter alphabet incl. empty, non-ASCII escapes and classes in brackets, plus mutated canonical patterns; (c) command lines (unknown flags, missing values, -h, directories, missing/empty/binary files); " +
		"(d, thorough) native coverage-guided fuzzing of the same two oracles; oracle: every entry point (spec.Parse, ebnf ast.Parse, ParseAndBuildAST, Spec.DFA, LALRParsingTable, nfa.Parse, regex ast.Parse and both ToDFA) returns without panic, " +
		"exactly one of result and error is non-nil; the binary exits normally, never prints a stack trace, and exits non-zero whenever it reports an error; sizes are bounded so that legitimately large automata are not mistaken for hangs (a 20 s watchdog only yields 'inconclusive'); " +
		"non-trivial = input rejected after at least one token/construct was consumed; distinct by input bytes"
	cyclicKey       = "cyclic-grammar-panic"
	unproductiveKey = "unproductive-nonterminal-panic"
)

var unprodOnce sync.Once
var unprodFlag bool

// unproductiveKnown probes the listed dependency finding: a non-terminal that derives no terminal string makes
// the LALR(1) construction dereference a nil look-ahead set.
func unproductiveKnown() bool {
	unprodOnce.Do(func() {
		sp, err := spec.Parse("p.ebnf", strings.NewReader("grammar g;\nstart = z z \"a\";\nz = z z;\n"))
		present := false
		if err == nil && sp != nil {
			present = rec.Guard(func() { _, _ = sp.LALRParsingTable() }) != nil
		}
		unprodFlag = rec.Known(unproductiveKey, present)
	})
	return unprodFlag
}

type input struct {
	Kind string   `json:"kind"` // spec | pattern | cli
	Data []byte   `json:"data,omitempty"`
	Text string   `json:"text,omitempty"`
	Args []string `json:"args,omitempty"`
}

// watchdog runs the oracle on one input.  If it has not returned after 20 s the input is handed to a child process
// whose processor time is watched: 10 s of processor time without returning is non-termination (these inputs cost
// milliseconds; the measure is processor time, so a busy machine cannot cause it); a child that finishes gives the
// verdict; a child that does not get the processor makes the run inconclusive (exit 3).
func watchdog(name, kind string, payload []byte, f func() error) error {
	if os.Getenv("VERIF_C14_CHILD") != "" {
		return f()
	}
	done := make(chan error, 1)
	go func() { done <- f() }()
	select {
	case err := <-done:
		return err
	case <-time.After(20 * time.Second):
	}
	rec.Count("inputs_repeated_in_a_child_process", 1)
	dir, err := os.MkdirTemp("", "c14child")
	if err != nil {
		return err
	}
	defer os.RemoveAll(dir)
	file := filepath.Join(dir, "input")
	if err := os.WriteFile(file, payload, 0o644); err != nil {
		return err
	}
	cmd := exec.Command(os.Args[0], "-test.run", "^$")
	cmd.Env = append(os.Environ(), "VERIF_C14_CHILD="+kind+":"+file)
	var out bytes.Buffer
	cmd.Stdout = &out
	if err := cmd.Start(); err != nil {
		return err
	}
	finished := make(chan error, 1)
	go func() { finished <- cmd.Wait() }()
	start := time.Now()
	tick := time.NewTicker(500 * time.Millisecond)
	defer tick.Stop()
	for {
		select {
		case werr := <-finished:
			var res map[string]string
			if werr != nil || json.Unmarshal(out.Bytes(), &res) != nil {
				fmt.Printf("WATCHDOG: the child process for %s failed (%v); this run is inconclusive\n", name, werr)
				os.Exit(3)
			}
			if res["err"] != "" {
				return errors.New(res["err"])
			}
			return nil
		case <-tick.C:
			if emit.CPUTime(cmd.Process.Pid) >= emit.SpinCPU {
				_ = cmd.Process.Kill()
				<-finished
				return fmt.Errorf("%s does not terminate: %v of processor time without returning (such an input costs milliseconds)", name, emit.SpinCPU)
			}
			if time.Since(start) >= emit.WallLimit {
				_ = cmd.Process.Kill()
				<-finished
				fmt.Printf("WATCHDOG: %s did not return and the machine is too busy to tell why; this run is inconclusive\n", name)
				os.Exit(3)
			}
		}
	}
}

func toRefGrammar(sp *spec.Spec) *ref.Grammar {
	g := &ref.Grammar{}
	for n := range sp.Grammar.NonTerminals.All() {
		g.NTs = append(g.NTs, string(n))
	}
	for p := range sp.Grammar.Productions.All() {
		gp := ref.GProd{Head: string(p.Head)}
		for _, s := range p.Body {
			if _, ok := s.(grammar.Terminal); ok {
				gp.Body = append(gp.Body, "t:"+s.Name())
			} else {
				gp.Body = append(gp.Body, s.Name())
			}
		}
		g.Prods = append(g.Prods, gp)
	}
	return g
}

// checkSpec is the oracle for a specification given as bytes.  consumed reports whether at least the grammar
// keyword was recognised (the input reaches logic).
func checkSpec(data []byte) (accepted bool, consumed bool, err error) {
	err = watchdog(fmt.Sprintf("specification %q", data), "spec", data, func() error {
		var sp *spec.Spec
		var e1 error
		if p := rec.Guard(func() { sp, e1 = spec.Parse("in.ebnf", bytes.NewReader(data)) }); p != nil {
			return fmt.Errorf("spec.Parse: %v", p)
		}
		if (sp == nil) == (e1 == nil) {
			return fmt.Errorf("spec.Parse returns specification=%v and error=%v; exactly one must be set", sp != nil, e1)
		}
		var g *east.Grammar
		var e2 error
		if p := rec.Guard(func() { g, e2 = east.Parse("in.ebnf", bytes.NewReader(data)) }); p != nil {
			return fmt.Errorf("(ebnf) ast.Parse: %v", p)
		}
		if (g == nil) == (e2 == nil) {
			return fmt.Errorf("(ebnf) ast.Parse returns tree=%v and error=%v; exactly one must be set", g != nil, e2)
		}
		var e3 error
		var hasRoot bool
		if p := rec.Guard(func() {
			ps, err := ebnf.New("in.ebnf", bytes.NewReader(data))
			if err != nil {
				e3 = err
				return
			}
			root, err := ps.ParseAndBuildAST()
			hasRoot, e3 = root != nil, err
		}); p != nil {
			return fmt.Errorf("ParseAndBuildAST: %v", p)
		}
		if hasRoot != (e3 == nil) {
			return fmt.Errorf("ParseAndBuildAST returns tree=%v and error=%v; exactly one must be set", hasRoot, e3)
		}
		consumed = e3 == nil || !strings.Contains(e3.Error(), "ACTION[0,")
		if sp != nil {
			accepted = true
			dfaPanicked := false
			if p := rec.Guard(func() {
				d, tm, derr := sp.DFA()
				if (d != nil && tm != nil) == (derr != nil) {
					e1 = fmt.Errorf("Spec.DFA returns automaton=%v, map=%v and error=%v; exactly one side must be set", d != nil, tm != nil, derr)
				}
			}); p != nil {
				if !(bigAutomaton(sp) && reindexKnown()) && !rec.QueuePanic(p) {
					return fmt.Errorf("Spec.DFA: %v", p)
				}
				dfaPanicked = true
				rec.Count("excluded_known_reindex_panic", 1)
			}
			if e1 != nil {
				return e1
			}
			rg := toRefGrammar(sp)
			if rg.Cyclic() && rec.Listed(cyclicKey) {
				rec.Count("excluded_known_cyclic", 1)
			} else if rg.HasUnproductive() && unproductiveKnown() {
				rec.Count("excluded_known_unproductive", 1)
			} else if nProds(sp) <= 14 {
				if p := rec.Guard(func() {
					T, terr := sp.LALRParsingTable()
					if (T != nil) == (terr != nil) {
						e1 = fmt.Errorf("LALRParsingTable returns table=%v and error=%v; exactly one must be set", T != nil, terr)
					}
				}); p != nil {
					return fmt.Errorf("LALRParsingTable: %v", p)
				}
				if e1 != nil {
					return e1
				}
				// the last entry point: the package is generated into a scratch directory
				if !dfaPanicked {
					dir, derr := os.MkdirTemp("", "c14gen")
					if derr == nil {
						defer os.RemoveAll(dir)
						if p := rec.Guard(func() { _ = golang.Generate(ui.NewNop(), &golang.Params{Path: dir, Spec: sp}) }); p != nil {
							return fmt.Errorf("golang.Generate: %v", p)
						}
						rec.Count("specifications_generated", 1)
					}
				}
			}
		}
		return nil
	})
	return
}

var reindexOnce sync.Once
var reindexFlag bool

// reindexKnown probes the listed dependency finding: Spec.DFA panics for a token pattern /a{64}/.
func reindexKnown() bool {
	reindexOnce.Do(func() {
		present := false
		if sp, err := spec.Parse("p.ebnf", strings.NewReader("grammar g;\nAB = /a{64}/\nstart = AB;\n")); err == nil {
			present = rec.Guard(func() { _, _, _ = sp.DFA() }) != nil
		}
		reindexFlag = rec.Known("reindex-queue-panic", present)
	})
	return reindexFlag
}

// bigAutomaton reports whether some pattern definition has a minimised automaton of 65 or more states.
func bigAutomaton(sp *spec.Spec) bool {
	big := false
	_ = rec.Guard(func() {
		for _, d := range sp.Definitions {
			if d.IsRegex {
				if n, err := nfa.Parse(d.Value); err == nil && len(n.ToDFA().Minimize().EliminateDeadStates().States()) >= 65 {
					big = true
				}
			}
		}
	})
	return big
}

func nProds(sp *spec.Spec) int {
	n := 0
	for range sp.Grammar.Productions.All() {
		n++
	}
	return n
}

func smallEnough(s string) bool {
	if len(s) > 24 {
		return false
	}
	// repetition counts of more than two digits or nested ranges can make legitimately huge automata
	depth, digits := 0, 0
	for _, c := range s {
		switch {
		case c == '{':
			depth++
			digits = 0
		case c >= '0' && c <= '9':
			digits++
			if digits > 2 {
				return false
			}
		default:
			digits = 0
		}
	}
	return depth <= 2
}

func checkPattern(s string) (accepted bool, err error) {
	err = watchdog(fmt.Sprintf("pattern %q", s), "pattern", []byte(s), func() error {
		var e1, e2 error
		var okN, okA bool
		if p := rec.Guard(func() {
			n, err := nfa.Parse(s)
			okN, e1 = n != nil, err
			if n != nil && smallEnough(s) {
				if n.ToDFA() == nil {
					e1 = fmt.Errorf("ToDFA returned nil")
				}
			}
		}); p != nil {
			return fmt.Errorf("nfa.Parse(%q): %v", s, p)
		}
		if okN == (e1 != nil) {
			return fmt.Errorf("nfa.Parse(%q) returns automaton=%v and error=%v; exactly one must be set", s, okN, e1)
		}
		if p := rec.Guard(func() {
			a, err := rast.Parse(s)
			okA, e2 = a != nil, err
			if a != nil && smallEnough(s) && !strings.ContainsAny(s, `.\[`) {
				if a.ToDFA() == nil {
					e2 = fmt.Errorf("ToDFA returned nil")
				}
			}
		}); p != nil {
			return fmt.Errorf("(regex) ast.Parse(%q): %v", s, p)
		}
		if okA == (e2 != nil) {
			return fmt.Errorf("(regex) ast.Parse(%q) returns tree=%v and error=%v; exactly one must be set", s, okA, e2)
		}
		accepted = okN
		return nil
	})
	return
}

// ---------- generators ----------

var hostileSpecs = []string{"", "grammar", "grammar g", "grammar g;", "grammar g; start = ;", "grammar g; start = start | ;x", "grammar g; @left", "grammar g; A", "grammar g; AB = ", "grammar g; AB = $X start = AB;",
	"grammar g; AB = /[\\x0100]/ start = AB;", "grammar g; AB = // start = AB;", "grammar g; start = \"\\", "grammar g; start = {{{ \"a\" }}};", "grammar g; start = < ;", "grammar g; @left < start = > ; start = ;",
	"grammar g; @none <x = > <x = > ; start = x; x = ;", "grammar g; start = ((((((((((\"a\"))))))))));", "grammar g; AB = /[\\xFFFFFFFF]/ start = AB;", "grammar g; AB = /a{3,1}/ start = AB;", "grammar g; AB = /a{64}/ start = AB;", "grammar g; AB = /[a-z]{70}x/ start = AB;",
	// a terminal without a state of its own (shadowed by a string literal; a class without members) next to others
	"grammar g; KW = /i[f]/ start = KW \"if\" \"x\";", "grammar g; KW = /i(f)/ ID = /[a-z]+x/ start = { KW | \"if\" | ID };", "grammar g; TT = /\\p{Lt}/ start = TT \"a\";", "grammar g; NN = /[^\\x00-\\x7F]/ start = NN \"a\";",
	// escaped pattern delimiters and a pattern that ends in an escaped backslash
	"grammar g; TOK = /\\/\\\\/ start = TOK;", "grammar g; PATH = /(\\/[a-z]+)+\\\\/ start = PATH \"x\";", "grammar g; AA = /\\\\/ BB = /a\\/b\\/\\\\/ start = AA BB;",
	// nine patterns that are rejected when the automaton is asked for, then one that is not
	"grammar g; A1 = /(/ A2 = /)/ A3 = /[z-a]/ A4 = /a{2,1}/ A5 = /[/ A6 = /a**/ A7 = /x{3,2}/ A8 = /((/ A9 = /[b-a]/ OK = /ok+/ start = A1 A2 A3 A4 A5 A6 A7 A8 A9 OK;",
	// more than a hundred distinct terminals, rules and bracketed groups (tables that grow)
	bigHostileSpec(),
	// one specimen per semantic diagnostic, in several orders
	"grammar g;\nIF = \"if\"\nstart = IF \"if\";\n", "grammar g;\nstart = \"if\" IF;\nIF = \"if\"\n", "grammar g;\nARROW = /->/\nstart = ARROW \"->\";\n",
	"grammar g;\nPLUS = \"+\"\nADD = \"+\"\nstart = PLUS ADD \"+\";\n", "grammar g;\nNUM = /[0-9]+/\nINT = /[0-9]+/\nstart = NUM INT;\n", "grammar g; AB = \"x\" AB = /y/ start = AB;",
	"grammar g; start = AB;", "grammar g; start = x;", "grammar g; x = \"a\";", "grammar g; @left \"+\" @right \"+\" start = \"+\";", "grammar g; @left <start = \"a\"> @right <start = \"a\"> start = \"a\";",
	"grammar g; AB = $ID CD = $ID start = AB CD;", "grammar g; AB = /(/ CD = /)/ EF = /[z-a]/ start = AB CD EF;", "grammar g; @left AB start = \"a\";", "grammar g; @left <x = \"a\"> start = \"a\";"}

func bigHostileSpec() string {
	var b strings.Builder
	b.WriteString("grammar big;\nID = /[a-z]+/\n")
	for i := 0; i < 60; i++ {
		fmt.Fprintf(&b, "r%d = \"kw%d\" [ ID \"op%d\" ] { r%d | \"sep%d\" } ;\n", i, i, i, (i+1)%60, i)
	}
	b.WriteString("start = r0 ;\n")
	return b.String()
}

func genSpecBytes(t *rapid.T) ([]byte, string) {
	switch rapid.IntRange(0, 9).Draw(t, "source") {
	case 0:
		return rapid.SliceOfN(rapid.Byte(), 0, 64).Draw(t, "bytes"), "raw_bytes"
	case 1:
		return []byte(rapid.SampledFrom(hostileSpecs).Draw(t, "hostile")), "hostile_constant"
	}
	m := gen.Spec(t, gen.SpecOpts{MaxRules: 2, Depth: 3, Literals: []string{"a", "b", `\"`, "kw0", "kw1", "TK"}, Tokens: []string{"TK", "NUM"}, Directives: 2, RuleHandles: true, DupRules: true, EmptyRules: true})
	toks := m.Tokens()
	label := "valid"
	for k, n := 0, rapid.IntRange(0, 2).Draw(t, "tokenEdits"); k < n && len(toks) > 1; k++ {
		pos := rapid.IntRange(0, len(toks)-1).Draw(t, "pos")
		label = "token_mutated"
		switch rapid.IntRange(0, 2).Draw(t, "edit") {
		case 0:
			toks = append(toks[:pos], toks[pos+1:]...)
		case 1:
			toks = append(toks[:pos+1], toks[pos:]...)
		default:
			src := rapid.SampledFrom([]string{"=", ";", "|", "(", ")", "[", "]", "{", "}", "{{", "}}", "<", ">", "grammar", "@left", "@none", "zz", "ZZ", `"s"`, `/r/`, `/[\x0100]/`, `/a{2,1}/`, "$ID", "$NOPE"}).Draw(t, "src")
			toks[pos] = ref.Tok{Kind: "?", Src: src}
		}
	}
	seps := ref.PlainSeps(toks)
	if rapid.Bool().Draw(t, "layout") {
		seps = gen.Seps(t, toks)
	}
	text, _ := ref.Render(toks, seps)
	data := []byte(text)
	switch rapid.IntRange(0, 5).Draw(t, "byteEdit") {
	case 0:
		data = data[:rapid.IntRange(0, len(data)).Draw(t, "cut")]
		label = "truncated"
	case 1:
		if len(data) > 0 {
			i := rapid.IntRange(0, len(data)-1).Draw(t, "at")
			data[i] = rapid.SampledFrom([]byte{0, 1, 0x7f, 0x80, 0xff, 0xc3, '"', '/', '\\', '*', '{', '<', '$', '@', '\n'}).Draw(t, "byte")
			label = "byte_replaced"
		}
	}
	return data, label
}

var patternAlphabet = []rune(`\|.?*+()[]{}$^-,:ab12xpPAF sdwLu=`)

var hostilePatterns = []string{"", `\`, "(", ")", "[", "]", "{", "}", "[]", "[^]", "()", "a{", "a{1", "a{1,", "a{,1}", "a{2,1}", "[z-a]", `[\x0100]`, `[\xFFFFFFFF]`, `[\p{Greek}]`, `\p{`, `\p{Lu`, `\p{Nope}`, `[[:alpha:]`, `[:alpha:]`,
	`\x`, `\x1`, `\xZZ`, `\x00`, `[\x00-\x7F]`, "a**", "a|", "|a", "^", "$", "^$", "a^", `\d-\w`, `[a-\d]`, `[\d-a]`, "é", "[é]", `(((((((a)))))))`, `a?{2}`, `(a|)`, `\x80`, `[\x80]`, `[a-\x7FFFFFFF]`, `[\x00110000-\x7FFFFFFF]x`, `[^a-\xFFFFFFFF]`,
	`[\xA0000020-\x23]`, `[\x7FFFFFFF-\x7FFFFFFF]`, `[\x80000000-\xFFFFFFFF]`, `[\xFFFFFFFE-a]`, `[\xFFFFFFFF-\x7FFFFFFF]`, `(a|[\x80000001-\x80000002])+`}

var bigEscape = regexp.MustCompile(`\\x[0-9A-F]{5,8}`)

// tame replaces escapes of code points above U+FFFF by a small one: a range that ends there legitimately expands to
// hundreds of thousands of transitions, which is slow but not a hang.
func tame(s string) string {
	return bigEscape.ReplaceAllStringFunc(s, func(m string) string {
		v, err := strconv.ParseUint(m[2:], 16, 64)
		if err != nil || v > 0xFFFF {
			return `\x0041`
		}
		return m
	})
}

func genPattern(t *rapid.T) (string, string) {
	s, label := genPatternRaw(t)
	return tame(s), label
}

func genPatternRaw(t *rapid.T) (string, string) {
	switch rapid.IntRange(0, 5).Draw(t, "psource") {
	case 0:
		return rapid.SampledFrom(hostilePatterns).Draw(t, "hostile"), "hostile_constant"
	case 1, 2:
		return string(rapid.SliceOfN(rapid.SampledFrom(patternAlphabet), 0, 12).Draw(t, "runes")), "alphabet_string"
	default:
		p := gen.Pattern(t, rapid.IntRange(0, 3).Draw(t, "depth"), false)
		ref.LimitPositions(p, 200)
		rs := []rune(p.String())
		if len(rs) > 0 && rapid.Bool().Draw(t, "mutate") {
			i := rapid.IntRange(0, len(rs)-1).Draw(t, "at")
			switch rapid.IntRange(0, 2).Draw(t, "edit") {
			case 0:
				rs = append(rs[:i], rs[i+1:]...)
			case 1:
				rs[i] = rapid.SampledFrom(patternAlphabet).Draw(t, "c")
			default:
				rs = rs[:i]
			}
			return string(rs), "mutated_canonical"
		}
		return string(rs), "canonical"
	}
}

func TestSpecificationsNeverCrash(t *testing.T) {
	rec.Rule(rule + ruleMore)
	if rec.Listed(cyclicKey) {
		rec.Assume("listed finding cyclic-grammar-panic (dependency): LALRParsingTable is not called for accepted specifications whose grammar is cyclic (counted as excluded_known_cyclic)")
		for i := 0; i < 30; i++ {
			sp, err := spec.Parse("p.ebnf", strings.NewReader("grammar g;\nstart = start | ;\n"))
			if err == nil && rec.Guard(func() { _, _ = sp.LALRParsingTable() }) != nil {
				rec.Announce(cyclicKey)
				break
			}
		}
	}
	if reindexKnown() {
		rec.Assume("listed finding reindex-queue-panic (dependency): Spec.DFA may panic when a token pattern's minimised automaton has 65 or more states (counted as excluded_known_reindex_panic)")
	}
	if unproductiveKnown() {
		rec.Assume("listed finding unproductive-nonterminal-panic (dependency): LALRParsingTable is not called for accepted specifications with a non-terminal that derives no terminal string (counted as excluded_known_unproductive)")
	}
	rec.Check(t, 4000, 160000, func(t *rapid.T) {
		data, label := genSpecBytes(t)
		accepted, consumed, err := checkSpec(data)
		cls := []string{label}
		if accepted {
			cls = append(cls, "accepted")
		} else {
			cls = append(cls, "rejected")
		}
		if !utf8.Valid(data) {
			cls = append(cls, "invalid_utf8")
		}
		rec.Case(string(data), !accepted && consumed, cls...)
		if !accepted && consumed && len(data) < 200 {
			rec.Sample(label, string(data))
		}
		if err != nil {
			rec.Fail(t, "spec", input{Kind: "spec", Data: data, Text: string(data)}, "%v\ninput: %q", err, data)
		}
	})
}

func TestPatternsNeverCrash(t *testing.T) {
	rec.Rule(rule + ruleMore)
	rec.Check(t, 6000, 240000, func(t *rapid.T) {
		s, label := genPattern(t)
		accepted, err := checkPattern(s)
		cls := []string{"pattern_" + label}
		if accepted {
			cls = append(cls, "pattern_accepted")
		} else {
			cls = append(cls, "pattern_rejected")
		}
		rec.Case("p:"+s, !accepted && len(s) >= 2, cls...)
		if !accepted && len(s) >= 2 {
			rec.Sample("pattern_"+label, s)
		}
		if err != nil {
			rec.Fail(t, "pattern", input{Kind: "pattern", Text: s}, "%v", err)
		}
	})
}

// guardedPatterns are rejected at once by a sound implementation, but an implementation that expands them before (or
// instead of) rejecting them needs gigabytes: they are submitted in a child process under an address-space limit only.
var guardedPatterns = []string{`a{4294967297,1}`, `(ab){2147483648,2}`, `[0-9]{99999999999,3}?`, `x(a|b){300000000,299999999}y`}

var errNoPrlimit = errors.New("prlimit is not installed")

// childGuarded runs the pattern oracle in a child process with an address-space limit of 6 GiB and the usual
// processor-time criterion. Running out of memory and running without end are verdicts, anything else is not.
func childGuarded(pattern string) error {
	prlimit, err := exec.LookPath("prlimit")
	if err != nil {
		return errNoPrlimit
	}
	dir, err := os.MkdirTemp("", "c14guard")
	if err != nil {
		return err
	}
	defer os.RemoveAll(dir)
	file := filepath.Join(dir, "input")
	if err := os.WriteFile(file, []byte(pattern), 0o644); err != nil {
		return err
	}
	cmd := exec.Command(prlimit, "--as=6442450944", os.Args[0], "-test.run", "^$")
	cmd.Env = append(os.Environ(), "VERIF_C14_CHILD=pattern:"+file, "GOMAXPROCS=2")
	var out, errb bytes.Buffer
	cmd.Stdout, cmd.Stderr = &out, &errb
	werr := emit.Watch(cmd)
	switch {
	case werr == emit.ErrSpinning:
		return fmt.Errorf("pattern %q: the Parse entry points do not return (%v of processor time; rejecting such a text costs microseconds)", pattern, emit.SpinCPU)
	case werr == emit.ErrTimeout:
		rec.Count("inconclusive_child_starved", 1)
		return nil
	case werr != nil:
		if strings.Contains(errb.String(), "out of memory") || strings.Contains(errb.String(), "cannot allocate") {
			return fmt.Errorf("pattern %q: the Parse entry points exhaust an address space of 6 GiB (rejecting such a text costs microseconds)", pattern)
		}
		rec.Count("inconclusive_child_failed", 1)
		return nil
	}
	var res map[string]string
	if json.Unmarshal(out.Bytes(), &res) != nil {
		rec.Count("inconclusive_child_failed", 1)
		return nil
	}
	if res["err"] != "" {
		return errors.New(res["err"])
	}
	if res["accepted"] == "true" {
		return fmt.Errorf("pattern %q: a repetition range whose minimum exceeds its maximum is accepted", pattern)
	}
	return nil
}

func TestGuardedPatterns(t *testing.T) {
	rec.Begin(t)
	rec.Rule(rule + ruleMore)
	if rec.Shard() != 0 {
		t.Skip("seed independent: shard 0 only")
	}
	for _, s := range guardedPatterns {
		err := childGuarded(s)
		if err == errNoPrlimit {
			rec.Count("guarded_patterns_not_submitted_no_prlimit", 1)
			continue
		}
		rec.Case("guarded:"+s, true, "huge_lower_bound_in_an_invalid_range")
		if err != nil {
			rec.Fail(t, "pattern", input{Kind: "guarded", Text: s}, "%v", err)
		}
	}
}

func TestHostileConstants(t *testing.T) {
	rec.Begin(t)
	rec.Rule(rule + ruleMore)
	if rec.Shard() != 0 {
		t.Skip("seed independent: shard 0 only")
	}
	for _, s := range hostileSpecs {
		acc, cons, err := checkSpec([]byte(s))
		rec.Case(s, !acc && cons, "hostile_constant")
		if err != nil {
			rec.Fail(t, "spec", input{Kind: "spec", Data: []byte(s), Text: s}, "%v\ninput: %q", err, s)
		}
	}
	for _, n := range []int{4094, 4095, 4096, 4097, 8191, 8192, 8193} {
		s := "grammar g;" + strings.Repeat(" ", n-len("grammar g;")-len("start = \"a\";")) + "start = \"a\";"
		_, _, err := checkSpec([]byte(s))
		rec.Case(fmt.Sprintf("len:%d", n), true, "boundary_length_file")
		if err != nil {
			rec.Fail(t, "spec", input{Kind: "spec", Data: []byte(s)}, "%v (file of %d bytes)", err, n)
		}
	}
	for _, s := range hostilePatterns {
		acc, err := checkPattern(s)
		rec.Case("p:"+s, !acc && len(s) >= 2, "hostile_constant")
		if err != nil {
			rec.Fail(t, "pattern", input{Kind: "pattern", Text: s}, "%v", err)
		}
	}
}

// ---------- command line ----------

func runCLI(dir string, args []string) (code int, out string, err error) {
	bin := os.Getenv("VERIF_EMERGE_BIN")
	cmd := exec.Command(bin, args...)
	cmd.Dir = dir
	cmd.Env = []string{"PATH=/usr/bin:/bin", "HOME=" + dir, "NO_COLOR=1"}
	var buf bytes.Buffer
	cmd.Stdout, cmd.Stderr = &buf, &buf
	limit := emit.SpinCPU
	if spinSeen {
		limit = 3 * time.Second // the verdict was established with the full limit; this is the search for a smaller case
	}
	werr := emit.WatchCPU(cmd, limit)
	switch {
	case werr == emit.ErrSpinning:
		spinSeen = true
		return -1, buf.String(), errSpin
	case werr == emit.ErrTimeout:
		fmt.Println("WATCHDOG: the emerge binary did not exit within its wall-clock limit without using the processor; this run is inconclusive")
		os.Exit(3)
	}
	if ee, ok := werr.(*exec.ExitError); ok {
		return ee.ExitCode(), buf.String(), nil
	} else if werr != nil {
		return 0, buf.String(), werr
	}
	return 0, buf.String(), nil
}

var errSpin = errors.New("spinning")

var spinSeen bool

func checkCLI(dir string, args []string) (int, error) {
	code, out, err := runCLI(dir, args)
	if err == errSpin {
		return code, fmt.Errorf("emerge %q does not terminate: %v of processor time without exiting (a run costs milliseconds)", args, emit.SpinCPU)
	}
	if err != nil {
		return code, fmt.Errorf("cannot run emerge %q: %v", args, err)
	}
	if strings.Contains(out, "panic:") || strings.Contains(out, "goroutine ") || strings.Contains(out, "runtime error") {
		return code, fmt.Errorf("emerge %q prints a Go stack trace (exit status %d):\n%s", args, code, out)
	}
	if code < 0 || code > 125 {
		return code, fmt.Errorf("emerge %q is terminated abnormally (status %d):\n%s", args, code, out)
	}
	if code != 0 && strings.TrimSpace(out) == "" {
		return code, fmt.Errorf("emerge %q exits with status %d without any message", args, code)
	}
	return code, nil
}

// cliFixture fills a directory with input files of every kind and returns the pool of arguments.
func cliFixture(dir string) []string {
	_ = os.WriteFile(filepath.Join(dir, "ok.ebnf"), []byte("grammar okg;\nstart = \"a\" ID;\nID = $ID\n"), 0o644)
	_ = os.WriteFile(filepath.Join(dir, "bad.ebnf"), []byte("grammar bad;\nstart = = ;\n"), 0o644)
	_ = os.WriteFile(filepath.Join(dir, "sem.ebnf"), []byte("grammar sem;\nstart = UNDEF;\n"), 0o644)
	_ = os.WriteFile(filepath.Join(dir, "pat.ebnf"), []byte("grammar pat;\nAB = /[\\x0100](/\nstart = AB;\n"), 0o644)
	_ = os.WriteFile(filepath.Join(dir, "conf.ebnf"), []byte("grammar conf;\nstart = start \"+\" start | \"i\";\n"), 0o644)
	_ = os.WriteFile(filepath.Join(dir, "cyc.ebnf"), []byte("grammar cyc;\nstart = x;\nx = \"a\" | ;\n"), 0o644)
	{
		// exactly 256 problems (an exit status is one byte)
		var b strings.Builder
		b.WriteString("grammar many;\nstart = \"x\"")
		for i := 0; i < 256; i++ {
			fmt.Fprintf(&b, " | undef_%d", i)
		}
		b.WriteString(";\n")
		_ = os.WriteFile(filepath.Join(dir, "many.ebnf"), []byte(b.String()), 0o644)
	}
	_ = os.WriteFile(filepath.Join(dir, "empty.ebnf"), nil, 0o644)
	_ = os.WriteFile(filepath.Join(dir, "bin.ebnf"), []byte{0xff, 0xfe, 0x00, 0x80, 'g', 'r'}, 0o644)
	_ = os.WriteFile(filepath.Join(dir, "noperm.ebnf"), []byte("grammar np;\nstart = \"a\";\n"), 0o000)
	_ = os.Mkdir(filepath.Join(dir, "adir"), 0o755)
	_ = os.Mkdir(filepath.Join(dir, "out"), 0o755)
	pool := []string{"many.ebnf", "ok.ebnf", "bad.ebnf", "sem.ebnf", "pat.ebnf", "conf.ebnf", "cyc.ebnf", "empty.ebnf", "bin.ebnf", "noperm.ebnf", "adir", "missing.ebnf", "",
		"-out", "-out=out", "-out=missing", "-out=~", "-out=~/", "-out=~x", "-out=.", "-out=/", "-name=~", "-name=.", "~", "-out=ok.ebnf", "-name", "-name=pkg", "-name=9x", "-name=func", "-name=", "-debug", "-verbose", "-help", "-version", "-h", "--help", "-x", "--", "-", "-out=", "-debug=maybe", "-verbose=2",
		"out", "-name=a/b", "-name=..", "=", "-=", "- -", "-out=ok.ebnf/sub", "-out=out/" + strings.Repeat("n", 300), "-out=missing/deeper", "-name=" + strings.Repeat("n", 300)}
	return pool
}

// every argument of the pool together with an accepted and with a rejected specification, in both orders
func TestCommandLinePairs(t *testing.T) {
	rec.Begin(t)
	rec.Rule(rule + ruleMore)
	if rec.Shard() != 0 {
		t.Skip("seed independent: shard 0 only")
	}
	if _, err := os.Stat(os.Getenv("VERIF_EMERGE_BIN")); err != nil {
		t.Skip("emerge binary not built")
	}
	dir, err := os.MkdirTemp("", "c14pairs")
	if err != nil {
		t.Fatalf("%v", err)
	}
	defer os.RemoveAll(dir)
	pool := cliFixture(dir)
	n := 0
	for _, a := range pool {
		for _, f := range []string{"ok.ebnf", "bad.ebnf"} {
			for _, args := range [][]string{{a, f}, {f, a}} {
				_ = os.RemoveAll(filepath.Join(dir, "out"))
				_ = os.Mkdir(filepath.Join(dir, "out"), 0o755)
				_ = os.RemoveAll(filepath.Join(dir, "okg"))
				n++
				code, err := checkCLI(dir, args)
				rec.Case("pair:"+strings.Join(args, "\x00"), code != 0, "cli_pair")
				if err != nil {
					rec.Fail(t, "cli", input{Kind: "cli", Args: args}, "%v", err)
				}
			}
		}
	}
	rec.Count("command_line_pairs", n)
}

func TestCommandLinesNeverCrash(t *testing.T) {
	rec.Rule(rule + ruleMore)
	bin := os.Getenv("VERIF_EMERGE_BIN")
	if _, err := os.Stat(bin); err != nil {
		t.Skip("emerge binary not built")
	}
	rec.Check(t, 150, 5000, func(t *rapid.T) {
		dir, err := os.MkdirTemp("", "c14cli")
		if err != nil {
			t.Fatalf("%v", err)
		}
		defer os.RemoveAll(dir)
		pool := cliFixture(dir)
		n := rapid.IntRange(0, 4).Draw(t, "nargs")
		var args []string
		for i := 0; i < n; i++ {
			args = append(args, rapid.SampledFrom(pool).Draw(t, "arg"))
		}
		code, err := checkCLI(dir, args)
		if err == nil && code == 0 {
			// the argument taken for the specification is the first one that does not start with '-': a rejected
			// specification must not end in exit status 0 (unless -help/-version are asked for)
			info := false
			file := ""
			var positional []string
			for i := 0; i < len(args); {
				a := args[i]
				if a == "--" {
					positional = args[i+1:]
					break
				}
				if len(a) < 2 || a[0] != '-' {
					positional = args[i:]
					break
				}
				name := strings.TrimLeft(a, "-")
				info = info || name == "help" || name == "version" || name == "h"
				if (name == "out" || name == "name") && !strings.Contains(a, "=") {
					i += 2 // the flag takes the next argument as its value
					continue
				}
				i++
			}
			for _, p := range positional {
				if !strings.HasPrefix(p, "-") {
					file = p
					break
				}
			}
			switch file {
			case "many.ebnf", "bad.ebnf", "sem.ebnf", "pat.ebnf", "conf.ebnf", "empty.ebnf", "bin.ebnf", "adir", "missing.ebnf":
				if !info {
					err = fmt.Errorf("emerge %q exits with status 0 although %s cannot be accepted", args, file)
				}
			}
		}
		cls := []string{fmt.Sprintf("cli_exit_%d", code)}
		rec.Case("cli:"+strings.Join(args, "\x00"), code != 0 && n > 0, cls...)
		if code != 0 {
			rec.Sample(fmt.Sprintf("cli%d", n), args)
		}
		if err != nil {
			rec.Fail(t, "cli", input{Kind: "cli", Args: args}, "%v", err)
		}
	})
}

// ---------- native fuzz targets (thorough tier; `go test -fuzz`) ----------

func FuzzSpec(f *testing.F) {
	for _, s := range hostileSpecs {
		f.Add([]byte(s))
	}
	f.Add([]byte("grammar calc;\nNUM = /[0-9]+/\n@left \"*\" \"/\"\nstart = e;\ne = e (\"+\" | \"-\") e | { \"(\" e \")\" } | [ NUM ] | ;\n"))
	f.Fuzz(func(t *testing.T, data []byte) {
		if len(data) > 2048 || (bytes.IndexByte(data, '{') >= 0 && bigCounts(string(data))) {
			return
		}
		if _, _, err := checkSpec(data); err != nil {
			rec.SetTest("FuzzSpec")
			rec.WriteReplay("spec", input{Kind: "spec", Data: data, Text: string(data)}, err.Error())
			t.Fatalf("%v", err)
		}
	})
}

var escapeRe = regexp.MustCompile(`\\x([0-9A-F]{2,8})`)

// wideRange: a range whose end points are far apart is enumerated character by character, and a repetition around it
// multiplies the cost: such texts are legitimately expensive (tens of seconds), which says nothing about termination.
// A text with a range sign and an escape above U+02FF is not submitted by the fuzz target (the generated checks cover
// wide ranges with chosen values).
func wideRange(s string) bool {
	if !strings.Contains(s, "-") {
		return false
	}
	for _, m := range escapeRe.FindAllStringSubmatch(s, -1) {
		if v, err := strconv.ParseUint(m[1], 16, 64); err == nil && v > 0x2FF {
			return true
		}
	}
	return false
}

var countRunRe = regexp.MustCompile(`[0-9]+`)

// bigCounts: a valid repetition count of thousands or billions (a{1000000000}) asks for that many copies of the
// operand: legitimately expensive and, for the fuzz worker, a way to exhaust the machine's memory. Texts with a run of
// more than two digits, or with counts whose product exceeds 600, are not submitted by the fuzz target (invalid ranges
// with huge bounds are submitted under an address-space limit by TestGuardedPatterns).
func bigCounts(s string) bool {
	product := 1
	for _, m := range countRunRe.FindAllString(s, -1) {
		if len(m) > 2 {
			return true
		}
		if v, err := strconv.Atoi(m); err == nil && v > 1 {
			product *= v
		}
		if product > 600 {
			return true
		}
	}
	return false
}

func FuzzPattern(f *testing.F) {
	for _, s := range hostilePatterns {
		f.Add(s)
	}
	f.Add(`"([\x21\x23-\x5B\x5D-\x7E]|\\[\x21-\x7E])+"`)
	f.Fuzz(func(t *testing.T, s string) {
		if len(s) > 48 || tame(s) != s || wideRange(s) || bigCounts(s) {
			return
		}
		if _, err := checkPattern(s); err != nil {
			rec.SetTest("FuzzPattern")
			rec.WriteReplay("pattern", input{Kind: "pattern", Text: s}, err.Error())
			t.Fatalf("%v", err)
		}
	})
}

func TestReplay(t *testing.T) {
	if !rec.IsReplay() {
		t.Skip("not in replay mode")
	}
	_, raw, _ := rec.Replay()
	var in input
	if err := json.Unmarshal(raw, &in); err != nil {
		t.Fatal(err)
	}
	var err error
	switch in.Kind {
	case "spec":
		_, _, err = checkSpec(in.Data)
	case "guarded":
		err = childGuarded(in.Text)
	case "pattern":
		_, err = checkPattern(in.Text)
	default:
		t.Skip("command-line cases are re-run by the regular check")
	}
	if err != nil {
		rec.Fail(t, in.Kind, in, "%v", err)
	}
}
