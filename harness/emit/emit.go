// Package emit is the emitted-package runner (R9): it generates the Go packages of a batch of specifications into one
// temporary module, adds a same-package export file to each, builds one driver program with the real compiler and runs it.
package emit

import (
	"bytes"
	"encoding/json"
	"fmt"
	"os"
	"os/exec"
	"path/filepath"
	"strconv"
	"strings"
	"time"

	"github.com/gardenbed/charm/ui"

	"github.com/gardenbed/emerge/internal/ebnf/parser/spec"
	"github.com/gardenbed/emerge/internal/generate/golang"
)

const exportFile = `package %s

import (
	"encoding/json"
	"io"
	"strings"
)

// VerifAdvance exposes the emitted transition function.
func VerifAdvance(s int, r rune) int { return advanceDFA(s, r) }

// VerifEval exposes the emitted accepting-state table.
func VerifEval(s int) string {
	l, err := New("probe", strings.NewReader("probe"))
	if err != nil {
		return "NEW-ERROR: " + err.Error()
	}
	return string(l.evalDFA(s).Terminal)
}

type verifTok struct {
	T string ` + "`json:\"t\"`" + `
	L string ` + "`json:\"l\"`" + `
	O int    ` + "`json:\"o\"`" + `
	Y int    ` + "`json:\"y\"`" + `
	X int    ` + "`json:\"x\"`" + `
	F string ` + "`json:\"f,omitempty\"`" + `
}

// VerifLex runs the emitted lexer over an input and returns the token stream as JSON.
func VerifLex(name string, src io.Reader, max int) []byte {
	type result struct {
		Toks []verifTok ` + "`json:\"toks\"`" + `
		End  string     ` + "`json:\"end\"`" + `
	}
	var res result
	l, err := New(name, src)
	if err != nil {
		res.End = "NEW-ERROR: " + err.Error()
	} else {
		res.End = "OVERRUN"
		for i := 0; i < max; i++ {
			t, err := l.NextToken()
			if err == io.EOF {
				res.End = "EOF"
				break
			}
			if err != nil {
				res.End = "ERR " + err.Error()
				break
			}
			res.Toks = append(res.Toks, verifTok{T: string(t.Terminal), L: t.Lexeme, O: t.Pos.Offset, Y: t.Pos.Line, X: t.Pos.Column, F: t.Pos.Filename})
		}
	}
	data, _ := json.Marshal(res)
	return data
}
`

// Job is one request to the driver program.
type Job struct {
	Pkg      string `json:"pkg"`
	Mode     string `json:"mode"` // dump | lex
	MaxState int    `json:"max_state,omitempty"`
	Runes    []rune `json:"runes,omitempty"`
	File     string `json:"file,omitempty"`     // lex: path of the input
	Chunk    int    `json:"chunk,omitempty"`    // lex: deliver the input in reads of at most this many bytes (0 = all at once)
	MaxToks  int    `json:"max_toks,omitempty"` // lex
}

// DumpResult is the answer to a dump job.
type DumpResult struct {
	Next [][]int  `json:"next"` // [state][rune index]
	Eval []string `json:"eval"` // [state]
}

// Tok is a token reported by an emitted lexer.
type Tok struct {
	T string `json:"t"`
	L string `json:"l"`
	O int    `json:"o"`
	Y int    `json:"y"`
	X int    `json:"x"`
	F string `json:"f"`
}

// LexResult is the answer to a lex job.
type LexResult struct {
	Toks []Tok  `json:"toks"`
	End  string `json:"end"`
}

// Batch is a temporary module holding emitted packages.
type Batch struct {
	Dir  string
	Pkgs []string
	env  []string
}

// NewBatch creates the temporary module.
func NewBatch() (*Batch, error) {
	dir, err := os.MkdirTemp("", "emitted")
	if err != nil {
		return nil, err
	}
	if err := os.WriteFile(filepath.Join(dir, "go.mod"), []byte("module emitted\n\ngo 1.23\n"), 0o644); err != nil {
		return nil, err
	}
	env := []string{"GOFLAGS=", "GOPROXY=off", "GOWORK=off"}
	for _, e := range os.Environ() {
		if !strings.HasPrefix(e, "GOFLAGS=") && !strings.HasPrefix(e, "GOPROXY=") && !strings.HasPrefix(e, "GOWORK=") {
			env = append(env, e)
		}
	}
	return &Batch{Dir: dir, env: env}, nil
}

// Close removes the module.
func (b *Batch) Close() { os.RemoveAll(b.Dir) }

// Add generates the package of a specification under a fresh package name and returns that name.
func (b *Batch) Add(sp *spec.Spec) (string, error) {
	name := fmt.Sprintf("p%d", len(b.Pkgs))
	cp := *sp
	cp.Name = name
	if err := golang.Generate(ui.NewNop(), &golang.Params{Path: b.Dir, Spec: &cp}); err != nil {
		return "", err
	}
	if err := os.WriteFile(filepath.Join(b.Dir, name, "verif_export.go"), []byte(fmt.Sprintf(exportFile, name)), 0o644); err != nil {
		return "", err
	}
	b.Pkgs = append(b.Pkgs, name)
	return name, nil
}

// Build writes the driver and compiles everything with the real compiler (go vet included).
func (b *Batch) Build() (string, error) {
	var m bytes.Buffer
	m.WriteString("package main\n\nimport (\n\t\"bufio\"\n\t\"bytes\"\n\t\"encoding/json\"\n\t\"fmt\"\n\t\"io\"\n\t\"os\"\n\n")
	for _, p := range b.Pkgs {
		fmt.Fprintf(&m, "\t%s \"emitted/%s\"\n", p, p)
	}
	m.WriteString(")\n\ntype pkg struct {\n\tadv  func(int, rune) int\n\teval func(int) string\n\tlex  func(string, io.Reader, int) []byte\n}\n\nvar pkgs = map[string]pkg{\n")
	for _, p := range b.Pkgs {
		fmt.Fprintf(&m, "\t%q: {%s.VerifAdvance, %s.VerifEval, %s.VerifLex},\n", p, p, p, p)
	}
	m.WriteString(`}

type job struct {
	Pkg      string ` + "`json:\"pkg\"`" + `
	Mode     string ` + "`json:\"mode\"`" + `
	MaxState int    ` + "`json:\"max_state\"`" + `
	Runes    []rune ` + "`json:\"runes\"`" + `
	File     string ` + "`json:\"file\"`" + `
	Chunk    int    ` + "`json:\"chunk\"`" + `
	MaxToks  int    ` + "`json:\"max_toks\"`" + `
}

// chunked delivers its data in short reads.
type chunked struct {
	data []byte
	n    int
}

func (c *chunked) Read(p []byte) (int, error) {
	if len(c.data) == 0 {
		return 0, io.EOF
	}
	k := c.n
	if k > len(p) {
		k = len(p)
	}
	if k > len(c.data) {
		k = len(c.data)
	}
	copy(p, c.data[:k])
	c.data = c.data[k:]
	return k, nil
}

func main() {
	in := bufio.NewReaderSize(os.Stdin, 1<<20)
	out := bufio.NewWriter(os.Stdout)
	defer out.Flush()
	dec := json.NewDecoder(in)
	for {
		var j job
		if err := dec.Decode(&j); err != nil {
			return
		}
		p, ok := pkgs[j.Pkg]
		if !ok {
			fmt.Fprintln(out, "{\"end\":\"NO-SUCH-PACKAGE\"}")
			continue
		}
		switch j.Mode {
		case "dump":
			type res struct {
				Next [][]int  ` + "`json:\"next\"`" + `
				Eval []string ` + "`json:\"eval\"`" + `
			}
			var r res
			for s := 0; s <= j.MaxState; s++ {
				row := make([]int, len(j.Runes))
				for i, c := range j.Runes {
					row[i] = p.adv(s, c)
				}
				r.Next = append(r.Next, row)
				r.Eval = append(r.Eval, p.eval(s))
			}
			data, _ := json.Marshal(r)
			out.Write(data)
			out.WriteByte('\n')
		case "lex":
			data, err := os.ReadFile(j.File)
			if err != nil {
				fmt.Fprintln(out, "{\"end\":\"NO-INPUT\"}")
				continue
			}
			var src io.Reader = bytes.NewReader(data)
			if j.Chunk > 0 {
				src = &chunked{data: data, n: j.Chunk}
			}
			out.Write(p.lex("input.txt", src, j.MaxToks))
			out.WriteByte('\n')
		}
	}
}
`)
	if err := os.WriteFile(filepath.Join(b.Dir, "main.go"), m.Bytes(), 0o644); err != nil {
		return "", err
	}
	bin := filepath.Join(b.Dir, "driver")
	cmd := exec.Command("go", "build", "-o", bin, ".")
	cmd.Dir = b.Dir
	cmd.Env = b.env
	if out, err := cmd.CombinedOutput(); err != nil {
		// errors located only in the export file or the driver mean that the harness no longer fits the emitted
		// code (e.g. a renamed function): that is not a verdict about the emitted package
		onlyHarness := true
		for _, l := range strings.Split(string(out), "\n") {
			if strings.Contains(l, ".go:") && !strings.Contains(l, "verif_export.go:") && !strings.Contains(l, "main.go:") {
				onlyHarness = false
			}
		}
		if onlyHarness {
			return "", fmt.Errorf("%w: %v\n%s", ErrHarness, err, out)
		}
		return "", fmt.Errorf("%v\n%s", err, out)
	}
	return bin, nil
}

// Vet runs go vet over the emitted packages.
func (b *Batch) Vet() error {
	cmd := exec.Command("go", "vet", "./...")
	cmd.Dir = b.Dir
	cmd.Env = b.env
	if out, err := cmd.CombinedOutput(); err != nil {
		return fmt.Errorf("%v\n%s", err, out)
	}
	return nil
}

// ErrHarness reports that the harness's own export file or driver does not compile against the emitted code.
var ErrHarness = fmt.Errorf("harness does not fit the emitted package")

// ErrTimeout reports that the driver produced no result within its wall-clock limit although it hardly got the
// processor (a busy machine): nothing can be concluded from it.
var ErrTimeout = fmt.Errorf("the driver linked with the emitted packages did not finish within its time limit (starved, inconclusive)")

// ErrSpinning reports that the driver used SpinCPU of processor time without producing its result: the jobs take
// milliseconds, so this is non-termination and not a slow machine (the measure is processor time, not the clock).
var ErrSpinning = fmt.Errorf("the driver linked with the emitted packages computes without end")

// SpinCPU is the processor time after which a driver is taken to be spinning; WallLimit ends the wait in any case.
const (
	SpinCPU   = 10 * time.Second
	WallLimit = 180 * time.Second
)

// CPUTime returns the processor time (user + system) a live process has used so far, from /proc/<pid>/stat.
func CPUTime(pid int) time.Duration { return cpuTime(pid) }

func cpuTime(pid int) time.Duration {
	data, err := os.ReadFile(fmt.Sprintf("/proc/%d/stat", pid))
	if err != nil {
		return 0
	}
	s := string(data)
	if i := strings.LastIndexByte(s, ')'); i >= 0 {
		s = s[i+1:]
	}
	f := strings.Fields(s)
	if len(f) < 13 {
		return 0
	}
	ut, _ := strconv.ParseInt(f[11], 10, 64)
	st, _ := strconv.ParseInt(f[12], 10, 64)
	return time.Duration(ut+st) * (time.Second / 100) // clock ticks of 10 ms
}

// Run sends the jobs to the driver and returns one raw JSON answer per job.
func Run(bin string, jobs []Job) ([]json.RawMessage, error) {
	var in bytes.Buffer
	enc := json.NewEncoder(&in)
	for _, j := range jobs {
		if err := enc.Encode(j); err != nil {
			return nil, err
		}
	}
	cmd := exec.Command(bin)
	cmd.Stdin = &in
	var out, errb bytes.Buffer
	cmd.Stdout, cmd.Stderr = &out, &errb
	if err := cmd.Start(); err != nil {
		return nil, err
	}
	done := make(chan error, 1)
	go func() { done <- cmd.Wait() }()
	spin := SpinCPU + time.Duration(len(jobs)/4)*time.Second
	start := time.Now()
	tick := time.NewTicker(500 * time.Millisecond)
	defer tick.Stop()
wait:
	for {
		select {
		case err := <-done:
			if err != nil {
				return nil, fmt.Errorf("driver: %v\n%s", err, errb.String())
			}
			break wait
		case <-tick.C:
			if cpuTime(cmd.Process.Pid) >= spin {
				_ = cmd.Process.Kill()
				<-done
				return nil, ErrSpinning
			}
			if time.Since(start) >= WallLimit {
				_ = cmd.Process.Kill()
				<-done
				return nil, ErrTimeout
			}
		}
	}
	var res []json.RawMessage
	dec := json.NewDecoder(&out)
	for {
		var m json.RawMessage
		if err := dec.Decode(&m); err != nil {
			break
		}
		res = append(res, m)
	}
	if len(res) != len(jobs) {
		return res, fmt.Errorf("driver answered %d of %d jobs\n%s", len(res), len(jobs), errb.String())
	}
	return res, nil
}

// Watch starts the command and waits for it. A process that has used SpinCPU of processor time without exiting is
// killed and reported as ErrSpinning (non-termination: the measure is processor time, not the clock); a process
// that reaches WallLimit without having used that much processor time was starved or is blocked: ErrTimeout (no
// verdict). Otherwise the result of Wait is returned.
func Watch(cmd *exec.Cmd) error { return WatchCPU(cmd, SpinCPU) }

// WatchCPU is Watch with another processor-time limit (a shorter one while a failure that was established with
// SpinCPU is being shrunk).
func WatchCPU(cmd *exec.Cmd, spin time.Duration) error {
	if err := cmd.Start(); err != nil {
		return err
	}
	done := make(chan error, 1)
	go func() { done <- cmd.Wait() }()
	start := time.Now()
	tick := time.NewTicker(250 * time.Millisecond)
	defer tick.Stop()
	for {
		select {
		case err := <-done:
			return err
		case <-tick.C:
			if cpuTime(cmd.Process.Pid) >= spin {
				_ = cmd.Process.Kill()
				<-done
				return ErrSpinning
			}
			if time.Since(start) >= WallLimit {
				_ = cmd.Process.Kill()
				<-done
				return ErrTimeout
			}
		}
	}
}
