// Package c17 decides property C17: processing is a pure function of the text - no interference between runs or goroutines.
package c17

import (
	"sync/atomic"
	"time"
	"runtime"
	auto "github.com/moorara/algo/automata"
	"crypto/sha256"
	"encoding/json"
	"fmt"
	"os"
	"os/exec"
	"path/filepath"
	"regexp"
	"sort"
	"strings"
	"sync"
	"testing"

	"pgregory.net/rapid"

	"github.com/moorara/algo/lexer"

	eparser "github.com/gardenbed/emerge/internal/ebnf/parser"
	east "github.com/gardenbed/emerge/internal/ebnf/parser/ast"
	"github.com/gardenbed/emerge/internal/ebnf/parser/spec"
	rast "github.com/gardenbed/emerge/internal/regex/parser/ast"
	"github.com/gardenbed/emerge/internal/regex/parser/nfa"
	"github.com/gardenbed/emerge/internal/vh/rec"
	"github.com/gardenbed/emerge/internal/vh/ref"
)

const (
	rule = "a pool of specifications (valid, invalid, with shared sub-expressions, with numbered synthesised rules, with token conflicts) and patterns (valid, invalid, bracket groups, classes); the baseline result of every pool item is computed alone in a fresh process; " +
		"(1) histories: random sequences of pool items processed one after the other in one process, each result must equal the isolated baseline; (2) schedules: the pool processed by 8-16 goroutines under the race detector, results compared with the baseline " +
		"and every race report classified by the owner of the racing memory (allocation site / global); non-trivial = history with >=3 different inputs incl. a failing one, goroutine set with >=2 different inputs; distinct by the sequence of pool indices"
	hashRaceKey = "dependency-hash-race"
)

var posRe = regexp.MustCompile(`\S+\.ebnf:\d+:\d+`)

var specPool = []string{
	"grammar a1;\nstart = \"a\" x;\nx = \"b\" | ;\n",
	"grammar a2;\nstart = { \"a\" } [ \"a\" ] ( \"a\" ) {{ \"a\" }};\n",
	"grammar a3;\nstart = ( \"a\" \"b\" ) { \"a\" \"b\" } [ \"c\" \"d\" ] {{ \"e\" \"f\" }} ( \"g\" | \"h\" );\n",
	"grammar a4;\nstart = ( \"x\" \"y\" ) ( \"y\" \"x\" );\ny = ( \"x\" \"y\" ) [ \"x\" \"y\" ];\n",
	"grammar a5;\nID = $ID\nNUM = /[0-9]+/\n@left \"*\" \"/\"\n@left \"+\" \"-\"\nstart = e;\ne = e \"+\" e | e \"-\" e | e \"*\" e | e \"/\" e | \"(\" e \")\" | NUM | ID;\n",
	"grammar a6;\nstart = {{ stmt }};\nstmt = ID \"=\" [ ID { \",\" ID } ] \";\" | \"if\" ID stmt;\nID = $ID\n",
	"grammar a7;\nstart = = ;\n",
	"grammar a8;\nstart = UNDEF \"a\";\n",
	"grammar a9;\nAA = \"x\"\nBB = \"x\"\nstart = AA BB;\n",
	"grammar b1;\nAA = /[a-z]+/\nBB = /[a-z][a-z]*/\nstart = AA BB;\n",
	"grammar b2;\nstart = x y;\nx = { \"a\" | \"b\" };\ny = [ \"b\" | \"a\" ] ( \"c\" \"d\" | \"e\" );\n",
	"grammar b3;\n@left <start = start start> \"n\"\nstart = start start | \"n\";\n",
	"grammar b4;\nstart = # ;\n",
	"grammar b5;\nstart = { ( \"p\" \"q\" ) } { ( \"q\" \"p\" ) } [ ( \"p\" \"q\" ) ];\n",
	"grammar b6;\nSTR = $STRING\nWSP = $WS\nstart = { STR | WSP };\n",
	"grammar b7",
	"grammar b8;\nstart = ;\nx = ;\n",
	"grammar b9;\nstart = ( \"a\" \"b\" ) ( \"c\" \"d\" ) ( \"e\" \"f\" ) ( \"g\" \"h\" );\n",
	// the same text once as a string literal and once as a pattern, in different specifications
	"grammar c1;\nID = /[a-z]+/\nstart = ID \".\" ID;\n",
	"grammar c2;\nANY = /./\nstart = ANY \"!\" ;\n",
	"grammar c3;\nAB = /a*b/\nstart = AB;\n",
	"grammar c4;\nNUM = /[0-9]+/\nstart = NUM \"a*b\" NUM;\n",
	"grammar c5;\nstart = \"[0-9]+\" \"a|b\" \"x?\";\n",
	"grammar c6;\nP = /a|b/\nQ = /x?y/\nstart = P Q;\n",
	"grammar c7;\nP = \"a|b\"\nstart = P;\n",
	"grammar e1;\nHI = /[\\xD800-\\xD803]+/\nstart = HI;\n",
	"grammar e2;\nLO = /[\\xDC00-\\xDC03]+/\nstart = LO;\n",
	"grammar e3;\nOHM = /\\x2126/\nstart = OHM;\n",
	"grammar e4;\nstart = \"&\" \"A\" \"0\";\n",
	// conflict reports name synthesised rules: they must not depend on what was processed before
	"grammar d1;\nNUM = /[0-9]+/\nstart = expr;\nexpr = expr ( \"+\" | \"-\" ) expr | NUM;\n",
	"grammar d2;\nstart = s;\ns = ( \"i\" s | \"i\" s \"e\" s ) | \"x\" { \"y\" \"z\" };\n",
	"grammar d3;\nNUM = /[0-9]+/\n@left \"+\"\nstart = expr;\nexpr = expr \"+\" expr | ( \"(\" expr \")\" ) | NUM [ \"!\" \"!\" ];\n",
	// several precedence levels each (a recycled table of levels shows in the other's result)
	"grammar f1;\n@right \"^\"\n@left \"*\" \"/\"\n@left \"+\"\n@none \"<\"\nstart = start \"^\" start | start \"*\" start | start \"/\" start | start \"+\" start | start \"<\" start | \"n\";\n",
	"grammar f2;\n@left \"|\"\n@right \"=\" <start = \"!\" start>\nstart = start \"|\" start | start \"=\" start | \"!\" start | \"v\";\n",
	// complements of classes that have ASCII members, next to classes that are complements themselves
	"grammar f3;\nNL = /\\P{L}+/\nstart = NL;\n",
	"grammar f4;\nANY = /./\nND = /\\D\\D/\nstart = ANY | ND;\n",
	// rejected after at least one complete rule (what a rejected specification leaves behind must not reach the next one)
	"grammar g1;\nstart = \"x\" start | \"x\";\nq = = ;\n",
	"grammar g2;\n@left \"y\"\nstart = start \"y\" start | \"z\";\nw = \"w\" #\n",
	"grammar g3;\nTK = /[a-c]+/\nstart = TK { \"k\" } ;\nx = ( \"k\"",
	// rejected for a pattern only when the automaton is asked for
	"grammar g4;\nBAD = /[9-0]+/\nstart = BAD;\n",
	"grammar g5;\nBAD = /a{3,1}/\nOK = /b+/\nstart = BAD OK;\n",
}

// hot names the pool specifications that are drawn more often in histories: those with precedence levels, those that
// are rejected half-way, the large ones.
var hot = map[string]bool{"a5": true, "b3": true, "d3": true, "f1": true, "f2": true, "a7": true, "b4": true, "g1": true, "g2": true, "g3": true, "g4": true, "g5": true, "big1": true, "big2": true, "big3": true}

var nameRe = regexp.MustCompile(`^grammar ([a-z0-9]+)`)

func hotItems() []int {
	var out []int
	for i, src := range specPool {
		if m := nameRe.FindStringSubmatch(src); m != nil && hot[m[1]] {
			out = append(out, i)
		}
	}
	return out
}

// large specifications (longer than the reader's 4096-byte halves); bigSpecs are appended to the pool in init
func bigSpec(name string, lines int) string {
	for shift := 0; shift < 64; shift++ {
		var b strings.Builder
		fmt.Fprintf(&b, "grammar %s;%s\n", name, strings.Repeat(" ", shift))
		for i := 0; i < lines; i++ {
			fmt.Fprintf(&b, "// padding line %04d of %s\n", i, name)
		}
		fmt.Fprintf(&b, "ID = /[a-z]+/\nstart = { ID \"%s\" } x;\nx = \"b\" | ;\n", name)
		text := b.String()
		hazard := false
		for _, off := range ref.NewScanner().Boundaries(text + "\n") {
			hazard = hazard || off%4096 == 4095
		}
		if !hazard {
			// outside of the class of the listed dependency finding (a lexeme that ends at the last byte of a buffer half)
			return text
		}
	}
	panic("no alignment outside of the listed class")
}

var firstBig int

func init() {
	firstBig = len(specPool)
	specPool = append(specPool, bigSpec("big1", 260), bigSpec("big2", 200), bigSpec("big3", 200))
}

// lalrPool names the pool specifications whose LALR(1) table (or conflict report) is part of the signature; the
// others include grammars for which the dependency's construction panics depending on iteration order (listed finding).
var lalrPool = map[string]bool{"f1": true, "f2": true, "a5": true, "a6": true, "b3": true, "d1": true, "d2": true, "d3": true}

var patternPool = []string{
	"a", "ab|c", "[a-f]+", "[^a-f]", "[0-9][0-9]*", `\d+(\.\d+)?`, "[[:alpha:]_][[:alnum:]_]*", "(a|b)*abb", "a{2,4}", "(ab){2}c", "x?y*z+", ".", `\w+`, `[\x41-\x5A\x00E9]`,
	"(", "a{3,1}", "[z-a]", "", `\`, "a**", "[u-z]+", "[a-cx-z]", `"([^"\\]|\\.)*"`, "(a*b){2}", "[^0-9]+",
	"[z-a", "(a{3,1}", "x{2,1})", "a|b", "x?", "a*b",
	// characters that agree in their low byte
	`\x2126`, "&", `\x0141`, "A", `\x2030+`, "0+", `\x017E|x`, "~|x",
	// ranges whose end points print alike (surrogate code points, U+FFFD)
	`[\xD800-\xD803]+`, `[\xDC00-\xDC03]+`, `[\xD801-\xD802]`, `[\xFFFD-\xFFFE]x`, `[\xDFFE-\xDFFF]`,
	// complements of classes with ASCII members; classes that are themselves complements relative to ASCII
	`\P{L}`, `\P{Lu}+`, `\P{Latin}x`, `\p{L}+`, `\p{Lu}\P{Lu}`, `\D+`, `\W`, `\S+`, `[^A-Z]`, `\P{Nd}9`,
}

// probes are inputs on which every automaton of a signature is run (a printed transition table shows surrogate
// code points and U+FFFD alike).
var probes = [][]rune{{'a'}, {'b'}, {'.'}, {'a', 'b'}, {'a', '*', 'b'}, {'x', 'y'}, {'9'}, {'a', 'a', 'b'}, {0xE9}, {0xD800}, {0xDBFF}, {0xDC00}, {0xDFFF}, {0xE000}, {0xFFFD}, {0xFFFE}, {0xD800, 0xD801}, {0xDC00, 0xDFFF}, {0xFFFD, 'x'}, {'i', 'f'}, {'1', '.', '5'}, {'"', 'a', '"'}, {'&'}, {0x2126}, {'A'}, {0x141}, {'0'}, {0x2030}, {'~'}, {0x17E}, {'Z'}, {'q'}, {'Q', 'x'}, {'A', 'a'}, {'-', '-'}, {'5', '9'}, {'z', 'z'}}

func probeAcceptance(d *auto.DFA) string {
	var b strings.Builder
	for _, p := range probes {
		s := make(auto.String, len(p))
		for i, r := range p {
			s[i] = auto.Symbol(r)
		}
		if d.Accept(s) {
			b.WriteByte('1')
		} else {
			b.WriteByte('0')
		}
	}
	return b.String()
}

// tokenDigest runs a parser that was created earlier and digests the tokens it yields.
func tokenDigest(p *eparser.Parser) string { return tokenDigestWith(p, 0, nil) }

// tokenDigestWith calls f when the at-th token is delivered.
func tokenDigestWith(p *eparser.Parser, at int, f func()) string {
	h := sha256.New()
	n := 0
	err := p.Parse(func(tok *lexer.Token) error {
		fmt.Fprintf(h, "%s %q %d:%d:%d\n", tok.Terminal, tok.Lexeme, tok.Pos.Offset, tok.Pos.Line, tok.Pos.Column)
		n++
		if f != nil && n == at {
			f()
		}
		return nil
	}, nil)
	if err != nil {
		return fmt.Sprintf("tokens=%d %x error: %s", n, h.Sum(nil)[:8], posRe.ReplaceAllString(strings.SplitN(err.Error(), "\n", 2)[0], "<pos>"))
	}
	return fmt.Sprintf("tokens=%d %x", n, h.Sum(nil)[:8])
}

func tokensOf(src string) (line string) {
	if g := rec.Guard(func() {
		p, err := eparser.New("pool.ebnf", strings.NewReader(src))
		if err != nil {
			line = "tokens: no parser: " + err.Error()
			return
		}
		line = tokenDigest(p)
	}); g != nil {
		line = "tokens: PANIC " + strings.SplitN(g.Error(), "\n", 2)[0]
	}
	return line
}

// shapeOf prints what a derived specification holds: it is printed again later in a history, when other inputs have
// been processed, and must not have changed (the caller of emerge keeps using the object it was given).
func shapeOf(sp *spec.Spec) string {
	var b strings.Builder
	fmt.Fprintf(&b, "name=%s start=%s\n", sp.Name, sp.Grammar.Start)
	var prods []string
	for p := range sp.Grammar.Productions.All() {
		prods = append(prods, p.String())
	}
	sort.Strings(prods)
	fmt.Fprintf(&b, "productions: %s\n", strings.Join(prods, " ; "))
	for _, d := range sp.Definitions {
		fmt.Fprintf(&b, "def %s=%q regex=%v\n", d.Terminal, d.Value, d.IsRegex)
	}
	for i, l := range sp.Precedences {
		fmt.Fprintf(&b, "level%d %s\n", i, l)
	}
	return b.String()
}

func specSignature(src string) string { s, _ := specSignatureK(src); return s }

// specSignatureK also returns a function that prints the derived object again (nil if there is none).
func specSignatureK(src string) (sig string, lastKept func() string) {
	var b strings.Builder
	fmt.Fprintf(&b, "%s\n", tokensOf(src))
	err := rec.Guard(func() {
		sp, err := spec.Parse("pool.ebnf", strings.NewReader(src))
		if err != nil {
			fmt.Fprintf(&b, "parse-error: %s\n", posRe.ReplaceAllString(err.Error(), "<pos>"))
		} else {
			b.WriteString(shapeOf(sp))
			lastKept = func() string { return shapeOf(sp) }
			d, tm, derr := sp.DFA()
			if derr != nil {
				fmt.Fprintf(&b, "dfa-error: %s\n", posRe.ReplaceAllString(derr.Error(), "<pos>"))
			} else {
				var owners []string
				for a, ss := range tm {
					owners = append(owners, fmt.Sprintf("%s:%v", a, ss))
				}
				sort.Strings(owners)
				fmt.Fprintf(&b, "dfa states=%d owners=%s transitions=%x probes=%s\n", len(d.States()), strings.Join(owners, " "), sha256.Sum256([]byte(d.String())), probeAcceptance(d))
			}
		}
		if err == nil && lalrPool[sp.Name] {
			T, terr := sp.LALRParsingTable()
			switch {
			case terr != nil:
				fmt.Fprintf(&b, "lalr-error: %s\n", posRe.ReplaceAllString(terr.Error(), "<pos>"))
			case T == nil:
				fmt.Fprintf(&b, "lalr: nil table\n")
			default:
				fmt.Fprintf(&b, "lalr: %x\n", sha256.Sum256([]byte(T.String())))
			}
		}
		g, err := east.Parse("pool.ebnf", strings.NewReader(src))
		if err != nil {
			fmt.Fprintf(&b, "ast-error: %s\n", posRe.ReplaceAllString(err.Error(), "<pos>"))
		} else {
			fmt.Fprintf(&b, "ast decls=%d name=%s\n", len(g.Decls), g.Name)
		}
	})
	if err != nil {
		fmt.Fprintf(&b, "PANIC: %v", strings.SplitN(err.Error(), "\n", 2)[0])
	}
	return b.String(), lastKept
}

func patternSignature(p string) string { s, _ := patternSignatureK(p); return s }

func patternSignatureK(p string) (sig string, lastKept func() string) {
	var b strings.Builder
	err := rec.Guard(func() {
		n, err := nfa.Parse(p)
		if err != nil {
			fmt.Fprintf(&b, "nfa-error: %s\n", err)
		} else {
			d := n.ToDFA().Minimize().EliminateDeadStates().ReindexStates()
			fmt.Fprintf(&b, "nfa-dfa: %s probes=%s\n", d.String(), probeAcceptance(d))
			lastKept = func() string { return d.String() + probeAcceptance(d) }
		}
		a, err := rast.Parse(p)
		if err != nil {
			fmt.Fprintf(&b, "ast-error: %s\n", err)
		} else {
			d := a.ToDFA().EliminateDeadStates().ReindexStates()
			fmt.Fprintf(&b, "ast-dfa states=%d final=%d symbols=%d probes=%s\n", len(d.States()), d.Final.Size(), len(d.Symbols()), probeAcceptance(d))
		}
	})
	if err != nil {
		fmt.Fprintf(&b, "PANIC: %v", strings.SplitN(err.Error(), "\n", 2)[0])
	}
	return b.String(), lastKept
}

// item i: 0..len(specPool)-1 are specifications, the rest patterns
func poolSize() int { return len(specPool) + len(patternPool) }

func isSpec(i int) bool { return i < len(specPool) }

func process(i int) string { s, _ := processK(i); return s }

var blockedEarlier atomic.Bool

// processK processes a pool item and notices when the call blocks (see blockedVerdict): the result is then a text
// that no baseline equals, so the block is reported like any other difference from the isolated run.
func processK(i int) (string, func() string) {
	if os.Getenv("VERIF_WORKER_ITEM") != "" || os.Getenv("VERIF_WORKER_PHASE") != "" {
		return processRaw(i)
	}
	if blockedEarlier.Load() {
		return "BLOCKED: an earlier call in this process never returned\n", nil
	}
	type res struct {
		s string
		k func() string
	}
	done := make(chan res, 1)
	go func() { s, k := processRaw(i); done <- res{s, k} }()
	for {
		c0 := selfCPU()
		select {
		case r := <-done:
			return r.s, r.k
		case <-time.After(90 * time.Second):
		}
		if v := blockedVerdict(selfCPU() - c0); v != "" {
			blockedEarlier.Store(true)
			return "BLOCKED: the call does not return: " + v + "\n", nil
		}
	}
}

// blockedVerdict: no result after 90 s although this process used less than 2 s of processor time meanwhile and the
// machine is not overloaded (load below 3 per core) means that the call waits for something that never comes (an item
// takes well under a second). A busy machine gives no verdict: the wait goes on.
func blockedVerdict(used time.Duration) string {
	load := 0.0
	if data, err := os.ReadFile("/proc/loadavg"); err == nil {
		fmt.Sscanf(string(data), "%f", &load)
	}
	if used < 2*time.Second && load < 3*float64(runtime.NumCPU()) {
		return fmt.Sprintf("blocked for 90 s with %v of processor time used by the whole process (load average %.1f)", used, load)
	}
	return ""
}

func processRaw(i int) (string, func() string) {
	if isSpec(i) {
		return specSignatureK(specPool[i])
	}
	return patternSignatureK(patternPool[i-len(specPool)])
}

func itemText(i int) string {
	if isSpec(i) {
		return specPool[i]
	}
	return "pattern " + patternPool[i-len(specPool)]
}

// ruleMore describes what was added to the exploration in the build phase.
const ruleMore = "; every result object handed out in a history (derived specification, automaton) is looked at again after each later step and must not have changed; in a quarter of the steps a parser is created, another pool item is processed, and only then the parser is run (also with two specifications longer than the reader's buffer halves); signatures contain a digest of the complete token automaton and, for selected pool items, the LALR(1) table or its conflict report; the pool pairs specifications in which the same text is a literal in one and a pattern in the other"

func TestMain(m *testing.M) {
	if w := os.Getenv("VERIF_WORKER_ITEM"); w != "" {
		var i int
		fmt.Sscanf(w, "%d", &i)
		fmt.Print(process(i))
		os.Exit(0)
	}
	rec.Init("C17")
	// The concurrent phase runs in a child process of its own: the testing package fails a run during which the
	// race detector reported anything, whereas the reports are to be classified (TestRaceReports).
	if os.Getenv("VERIF_WORKER_PHASE") != "" {
		concurrentPhase()
		data, _ := json.Marshal(phaseRounds)
		_ = os.WriteFile(filepath.Join(rec.OutDir(), "phase.json"), data, 0o644)
		os.Exit(0)
	}
	rec.Run(m)
}

var (
	baseOnce sync.Once
	baseline []string
	baseErr  error
)

// isolated computes the result of every pool item alone in a fresh process.
func isolated() ([]string, error) {
	baseOnce.Do(func() {
		baseline = make([]string, poolSize())
		exe, err := os.Executable()
		if err != nil {
			baseErr = err
			return
		}
		var wg sync.WaitGroup
		var mu sync.Mutex
		sem := make(chan struct{}, 8)
		for i := 0; i < poolSize(); i++ {
			wg.Add(1)
			go func(i int) {
				defer wg.Done()
				sem <- struct{}{}
				defer func() { <-sem }()
				cmd := exec.Command(exe)
				cmd.Env = append(os.Environ(), fmt.Sprintf("VERIF_WORKER_ITEM=%d", i), "GORACE=exitcode=0 log_path="+filepath.Join(rec.OutDir(), "worker-race"))
				out, err := cmd.Output()
				mu.Lock()
				defer mu.Unlock()
				if err != nil {
					baseErr = fmt.Errorf("worker for item %d: %v", i, err)
					return
				}
				baseline[i] = string(out)
			}(i)
		}
		wg.Wait()
	})
	return baseline, baseErr
}

type input struct {
	Items []int `json:"items"`
	// Inter[k] >= 0: at step k a parser for specification Items[k] is created first, then pool item Inter[k] is processed
	// completely, and only then the parser is run (creation and use of emerge's objects interleave)
	Inter []int `json:"inter,omitempty"`
	// Nested[k] > 0 (with Inter[k] >= 0): pool item Inter[k] is processed inside the token callback of the parser for
	// Items[k], when its Nested[k]-th token is delivered (a parse that starts while another one is under way)
	Nested []int `json:"nested,omitempty"`
}

type keptObject struct {
	step, item int
	shape      string
	again      func() string
}

func checkHistory(items, inter, nested []int) error {
	base, err := isolated()
	if err != nil {
		return fmt.Errorf("harness: %v", err)
	}
	var kept []keptObject
	history := func(step int) string {
		var prev []string
		for k, j := range items[:step] {
			if k < len(inter) && inter[k] >= 0 {
				prev = append(prev, fmt.Sprintf("%d(with %d between creation and run)", j, inter[k]))
			} else {
				prev = append(prev, fmt.Sprint(j))
			}
		}
		return strings.Join(prev, " ")
	}
	for step, i := range items {
		if step < len(inter) && inter[step] >= 0 && isSpec(i) {
			j := inter[step]
			var p *eparser.Parser
			var perr error
			if g := rec.Guard(func() { p, perr = eparser.New("pool.ebnf", strings.NewReader(specPool[i])) }); g != nil || perr != nil {
				return fmt.Errorf("step %d: no parser for pool item %d: %v %v", step, i, g, perr)
			}
			nest := 0
			if step < len(nested) {
				nest = nested[step]
			}
			var line string
			if nest > 0 {
				// the other item is processed while this parse is under way
				var inner error
				if g := rec.Guard(func() { line = tokenDigestWith(p, nest, func() {
					if got := process(j); got != base[j] && inner == nil {
						inner = fmt.Errorf("step %d: the result of processing pool item %d inside a token callback of the parse of item %d differs from its result in an isolated run (history [%s])\n--- item:\n%s\n--- isolated:\n%s--- in this history:\n%s", step, j, i, history(step), head(itemText(j)), base[j], got)
					}
				}) }); g != nil {
					line = "tokens: PANIC " + strings.SplitN(g.Error(), "\n", 2)[0]
				}
				if inner != nil {
					return inner
				}
			} else {
				if got := process(j); got != base[j] {
					return fmt.Errorf("step %d: the result of processing pool item %d, while a parser for item %d exists that has not run yet, differs from its result in an isolated run (history [%s])\n--- item:\n%s\n--- isolated:\n%s--- in this history:\n%s", step, j, i, history(step), head(itemText(j)), base[j], got)
				}
				if g := rec.Guard(func() { line = tokenDigest(p) }); g != nil {
					line = "tokens: PANIC " + strings.SplitN(g.Error(), "\n", 2)[0]
				}
			}
			if want := strings.SplitN(base[i], "\n", 2)[0]; line != want {
				return fmt.Errorf("step %d: a parser for pool item %d was created, then item %d was processed, then the parser was run: it yields other tokens than in an isolated run (history [%s])\n--- item:\n%s\n--- isolated: %s\n--- here:     %s", step, i, j, history(step), head(itemText(i)), want, line)
			}
		}
		got, lastKept := processK(i)
		if got != base[i] {
			return fmt.Errorf("step %d: the result of processing pool item %d differs from its result in an isolated run, after processing items [%s] in the same process\n--- item:\n%s\n--- isolated:\n%s--- in this history:\n%s",
				step, i, history(step), head(itemText(i)), base[i], got)
		}
		// results handed out earlier must still be what they were
		for _, k := range kept {
			var now string
			if g := rec.Guard(func() { now = k.again() }); g != nil {
				now = "PANIC " + g.Error()
			}
			if now != k.shape {
				return fmt.Errorf("step %d: the result object that processing pool item %d returned at step %d has changed after pool item %d was processed (history [%s])\n--- item:\n%s\n--- when it was returned:\n%s--- now:\n%s", step, k.item, k.step, i, history(step+1), head(itemText(k.item)), k.shape, now)
			}
		}
		if lastKept != nil {
			f := lastKept
			kept = append(kept, keptObject{step: step, item: i, shape: f(), again: f})
			if len(kept) > 5 {
				kept = kept[1:]
			}
		}
	}
	return nil
}

func head(s string) string {
	if len(s) > 400 {
		return s[:200] + fmt.Sprintf(" ... (%d bytes) ... ", len(s)) + s[len(s)-150:]
	}
	return s
}

func TestHistories(t *testing.T) {
	rec.Rule(rule + ruleMore)
	if _, err := isolated(); err != nil {
		t.Fatalf("%v", err)
	}
	rec.Check(t, 80, 600, func(t *rapid.T) {
		items := rapid.SliceOfN(rapid.IntRange(0, poolSize()-1), 2, 12).Draw(t, "items")
		for k := range items {
			if rapid.IntRange(0, 2).Draw(t, "hot") == 0 {
				items[k] = rapid.SampledFrom(hotItems()).Draw(t, "hotItem")
			}
		}
		inter := make([]int, len(items))
		nested := make([]int, len(items))
		interleaved := false
		for k := range inter {
			inter[k] = -1
			if rapid.Bool().Draw(t, "nested") {
				nested[k] = rapid.IntRange(1, 9).Draw(t, "atToken")
			}
			if isSpec(items[k]) && rapid.IntRange(0, 3).Draw(t, "interleave") == 0 {
				inter[k] = rapid.IntRange(0, len(specPool)-1).Draw(t, "between")
				if items[k] >= firstBig && rapid.Bool().Draw(t, "bigBetween") {
					inter[k] = rapid.IntRange(firstBig, len(specPool)-1).Draw(t, "betweenBig")
				}
				interleaved = true
			}
		}
		distinct := map[int]bool{}
		failing := false
		base, _ := isolated()
		for _, i := range items {
			distinct[i] = true
			failing = failing || strings.Contains(base[i], "error")
		}
		var key []string
		for _, i := range items {
			key = append(key, fmt.Sprint(i))
		}
		cls := []string{"history"}
		if interleaved {
			cls = append(cls, "creation_and_run_interleaved")
			for k := range inter {
				key = append(key, fmt.Sprint(inter[k]), fmt.Sprint(nested[k]))
				if inter[k] >= firstBig && items[k] >= firstBig {
					cls = append(cls, "two_large_specifications_interleaved")
				}
			}
		}
		rec.Case("h:"+strings.Join(key, ","), len(distinct) >= 3 && failing, cls...)
		rec.Sample("history", map[string]any{"history_of_pool_items": items, "first_item": itemText(items[0])})
		if err := checkHistory(items, inter, nested); err != nil {
			rec.Fail(t, "history", input{Items: items, Inter: inter, Nested: nested}, "%v", err)
		}
	})
}

// TestResultObjectsSurviveLaterParses: back-to-back derivations without any other work in between (a recycled
// object is most likely handed to the very next call): what was returned for the first specification must not change.
func TestResultObjectsSurviveLaterParses(t *testing.T) {
	rec.Rule(rule + ruleMore)
	parse := func(i int) (sp *spec.Spec) {
		_ = rec.Guard(func() { sp, _ = spec.Parse("pool.ebnf", strings.NewReader(specPool[i])) })
		return sp
	}
	rec.Check(t, 300, 3000, func(t *rapid.T) {
		first := rapid.SampledFrom(hotItems()).Draw(t, "first")
		if rapid.IntRange(0, 3).Draw(t, "any") == 0 {
			first = rapid.IntRange(0, len(specPool)-1).Draw(t, "anyFirst")
		}
		n := rapid.IntRange(1, 4).Draw(t, "later")
		later := make([]int, n)
		for k := range later {
			later[k] = rapid.SampledFrom(hotItems()).Draw(t, "laterHot")
			if rapid.IntRange(0, 3).Draw(t, "anyLater") == 0 {
				later[k] = rapid.IntRange(0, len(specPool)-1).Draw(t, "laterAny")
			}
		}
		sp := parse(first)
		rec.Case(fmt.Sprintf("keep:%d:%v", first, later), sp != nil, "result_object_kept_across_parses")
		if sp == nil {
			return
		}
		before := shapeOf(sp)
		for round := 0; round < 3; round++ {
			for _, j := range later {
				parse(j)
				if now := shapeOf(sp); now != before {
					rec.Fail(t, "kept", map[string]any{"first": first, "later": later}, "the specification derived from pool item %d has changed after pool item %d was processed in the same process (later items %v)\n--- item:\n%s\n--- when it was returned:\n%s--- now:\n%s", first, j, later, head(itemText(first)), before, now)
				}
			}
		}
	})
}

// TestManyCallsLeaveNothingBehind: hundreds of earlier calls with expensive inputs (long repetition ranges, large
// classes, many groups; parsed only) and then the pool: every result must still be that of an isolated run. A counter,
// a budget or a table that earlier calls fill belongs to the process, not to the input.
func TestManyCallsLeaveNothingBehind(t *testing.T) {
	rec.Begin(t)
	rec.Rule(rule + ruleMore)
	if rec.Shard() != 0 {
		t.Skip("seed independent: shard 0 only")
	}
	base, err := isolated()
	if err != nil {
		t.Fatalf("harness: %v", err)
	}
	bulk := []string{`[a-z]{600}x{300,}`, `(ab|cd){200}`, `[0-9]{1,400}`, `\w{500}`, `a{1000}`, `([a-f]{20}){20}`, `[^a]{300}`, `(a|b|c|d|e|f|g|h){150,}`, `\d{100,700}`, `x{0,900}y`}
	calls := 0
	for round := 0; round < 12; round++ {
		for _, p := range bulk {
			_ = rec.Guard(func() {
				_, _ = nfa.Parse(p)
				_, _ = rast.Parse(p)
			})
			calls += 2
		}
	}
	// a dozen specifications whose patterns are rejected when the automaton is asked for (error paths give back what they took)
	for round := 0; round < 6; round++ {
		for _, i := range hotItems() {
			if strings.Contains(specPool[i], "BAD = ") {
				_ = process(i)
				calls++
			}
		}
	}
	rec.Count("earlier_calls_before_the_pool", calls)
	// patterns first: nothing that processing a specification may reset has happened yet
	order := []int{}
	for i := len(specPool); i < poolSize(); i++ {
		order = append(order, i)
	}
	for i := 0; i < firstBig; i++ {
		order = append(order, i)
	}
	for _, i := range order {
		got, blocked := processWithin(i)
		if blocked != "" {
			rec.Fail(t, "bulk", map[string]any{"item": i}, "after %d earlier calls in the same process, processing pool item %d does not return: %s\n--- item:\n%s", calls, i, blocked, head(itemText(i)))
			return
		}
		rec.Case(fmt.Sprintf("after-bulk:%d", i), true, "after_many_calls")
		if got != base[i] {
			rec.Fail(t, "bulk", map[string]any{"item": i}, "after %d earlier calls in the same process (long repetition ranges, large classes, many groups), pool item %d gives a different result than alone\n--- item:\n%s\n--- isolated:\n%s--- here:\n%s", calls, i, head(itemText(i)), base[i], got)
		}
	}
}

func processWithin(i int) (string, string) {
	got := process(i)
	if strings.HasPrefix(got, "BLOCKED:") {
		return "", strings.TrimSpace(got)
	}
	return got, ""
}

func selfCPU() time.Duration {
	data, err := os.ReadFile("/proc/self/stat")
	if err != nil {
		return 0
	}
	s := string(data)
	if k := strings.LastIndexByte(s, ')'); k >= 0 {
		s = s[k+1:]
	}
	f := strings.Fields(s)
	if len(f) < 13 {
		return 0
	}
	var ut, st int64
	fmt.Sscanf(f[11], "%d", &ut)
	fmt.Sscanf(f[12], "%d", &st)
	return time.Duration(ut+st) * (time.Second / 100)
}

type roundResult struct {
	Plans   [][]int    `json:"plans"`
	Results [][]string `json:"results"`
}

var (
	phaseRounds []roundResult
	phaseErr    error
)

// concurrentPhase processes pool items on 8-16 goroutines at once, several rounds.
func concurrentPhase() {
	rounds := rec.N(12, 240)
	rng := rec.RapidSeed() * 7919
	next := func(n int) int {
		rng = rng*6364136223846793005 + 1442695040888963407
		return int((rng >> 33) % uint64(n))
	}
	for r := 0; r < rounds; r++ {
		g := 8 + next(9)
		plans := make([][]int, g)
		for i := range plans {
			for k, n := 0, 2+next(4); k < n; k++ {
				// mostly patterns: specifications race inside the dependency (listed finding) and every report is costly
				if next(8) == 0 {
					plans[i] = append(plans[i], next(len(specPool)))
				} else {
					plans[i] = append(plans[i], len(specPool)+next(len(patternPool)))
				}
			}
		}
		results := make([][]string, g)
		var wg sync.WaitGroup
		start := make(chan struct{})
		for i := range plans {
			wg.Add(1)
			go func(i int) {
				defer wg.Done()
				<-start
				for _, it := range plans[i] {
					results[i] = append(results[i], process(it))
				}
			}(i)
		}
		close(start)
		wg.Wait()
		phaseRounds = append(phaseRounds, roundResult{Plans: plans, Results: results})
	}
}

func TestConcurrentGoroutines(t *testing.T) {
	rec.Begin(t)
	rec.Rule(rule + ruleMore)
	base, err := isolated()
	if err != nil {
		t.Fatalf("harness: %v", err)
	}
	exe, err := os.Executable()
	if err != nil {
		t.Fatalf("harness: %v", err)
	}
	cmd := exec.Command(exe)
	cmd.Env = append(os.Environ(), "VERIF_WORKER_PHASE=1", "GORACE=halt_on_error=0 exitcode=0 log_path="+filepath.Join(rec.OutDir(), "race"))
	if out, err := cmd.CombinedOutput(); err != nil {
		t.Fatalf("harness: the concurrent phase failed: %v\n%s", err, out)
	}
	data, err := os.ReadFile(filepath.Join(rec.OutDir(), "phase.json"))
	if err != nil || json.Unmarshal(data, &phaseRounds) != nil {
		t.Fatalf("harness: no results of the concurrent phase: %v", err)
	}
	tolerateSpecs := rec.Listed(hashRaceKey)
	if tolerateSpecs {
		rec.Assume("listed finding dependency-hash-race: the package-level hash functions and random source of the dependency are shared, so concurrently processed SPECIFICATIONS race inside the dependency; their results are not compared while the finding is listed, patterns always are")
	}
	for r, rr := range phaseRounds {
		distinct := map[int]bool{}
		var key []string
		for _, p := range rr.Plans {
			for _, it := range p {
				distinct[it] = true
				key = append(key, fmt.Sprint(it))
			}
			key = append(key, "/")
		}
		rec.Case("c:"+strings.Join(key, ","), len(distinct) >= 2, "concurrent_round")
		if r == 0 {
			rec.Sample("concurrent", map[string]any{"goroutines": len(rr.Plans), "plans_of_pool_items": rr.Plans})
		}
		for i := range rr.Plans {
			for k, it := range rr.Plans[i] {
				if isSpec(it) && tolerateSpecs {
					rec.Count("excluded_known_concurrent_spec_results", 1)
					continue
				}
				if rr.Results[i][k] != base[it] {
					rec.Fail(t, "concurrent", map[string]any{"plans": rr.Plans, "goroutine": i, "step": k}, "processed concurrently with other inputs, pool item %d gives a different result than alone\n--- item:\n%s\n--- isolated:\n%s--- concurrently:\n%s", it, itemText(it), base[it], rr.Results[i][k])
				}
			}
		}
	}
}

// raceTolerated lists the racing call sites of the listed dependency finding: the accessor is the innermost frame
// that is not part of the standard library (pass-through writers of the dependency are skipped).
var raceTolerated = []*regexp.Regexp{
	// package-level hashers of the dependency (var hashX = hash.HashFuncFor...(...) in grammar, parser/lr, automata, ...)
	regexp.MustCompile(`^github\.com/moorara/algo/[a-z/]+\.init\.`),
	regexp.MustCompile(`^github\.com/moorara/algo/hash\.`),
	regexp.MustCompile(`^github\.com/moorara/algo/symboltable\.\(\*quadraticHashTable\[.*\]\)\.All\(\)`),
	regexp.MustCompile(`^github\.com/moorara/algo/set\.\(\*set\[.*\]\)\.All\(\)`),
}

var passThrough = regexp.MustCompile(`^github\.com/moorara/algo/grammar\.Write`)

// accessor returns the function that touches the racing memory in one access stack of a race report.
func accessor(section string) string {
	for _, l := range strings.Split(section, "\n") {
		if !strings.HasPrefix(l, "  ") || strings.HasPrefix(l, "      ") {
			continue
		}
		f := strings.TrimSpace(l)
		if !strings.Contains(strings.SplitN(f, "(", 2)[0], ".") || !strings.Contains(f, "/") {
			continue // standard library frame (hash/fnv..., math/rand...) has a slash too; keep only module paths
		}
		if !strings.HasPrefix(f, "github.com/") && !strings.HasPrefix(f, "pgregory.net/") {
			continue
		}
		if passThrough.MatchString(f) {
			continue
		}
		return f
	}
	return "?"
}

// TestRaceReports runs last: it classifies every report of the race detector by its two racing call sites.
func TestRaceReports(t *testing.T) {
	rec.Begin(t)
	files, _ := filepath.Glob(filepath.Join(rec.OutDir(), "race.*"))
	total, dep, own := 0, 0, 0
	var firstOwn string
	shapes := map[string]int{}
	for _, f := range files {
		data, err := os.ReadFile(f)
		if err != nil {
			continue
		}
		for _, blk := range strings.Split(string(data), "WARNING: DATA RACE")[1:] {
			total++
			secs := strings.Split(blk, "\n\n")
			if len(secs) < 2 {
				own++
				continue
			}
			a, b := accessor(secs[0]), accessor(secs[1])
			ok := func(f string) bool {
				for _, re := range raceTolerated {
					if re.MatchString(f) {
						return true
					}
				}
				return false
			}
			shapes[a+" <-> "+b]++
			if ok(a) && ok(b) {
				dep++
			} else {
				own++
				if firstOwn == "" {
					firstOwn = "WARNING: DATA RACE" + blk
				}
			}
		}
	}
	rec.Count("race_reports", total)
	rec.Count("race_reports_at_listed_dependency_call_sites", dep)
	rec.Count("race_reports_elsewhere", own)
	if dep > 0 && !rec.Known(hashRaceKey, true) {
		rec.Fail(t, "race", map[string]any{"reports": dep}, "%d data races inside the dependency's package-level state (hashers, random source); not listed as a known finding", dep)
	}
	if own > 0 {
		if len(firstOwn) > 6000 {
			firstOwn = firstOwn[:6000]
		}
		rec.Fail(t, "race", map[string]any{"reports": own}, "%d data race(s) on shared state outside of the listed dependency call sites; first report:\n%s", own, firstOwn)
	}
}

func TestReplay(t *testing.T) {
	if !rec.IsReplay() {
		t.Skip("not in replay mode")
	}
	kind, raw, _ := rec.Replay()
	if kind != "history" {
		t.Skip("schedule-dependent cases are re-run by the regular check")
	}
	var in input
	if err := json.Unmarshal(raw, &in); err != nil {
		t.Fatal(err)
	}
	if err := checkHistory(in.Items, in.Inter, in.Nested); err != nil {
		rec.Fail(t, "history", in, "%v", err)
	}
}
