// Package c15 decides property C15: the same specification and options give byte-identical output and diagnostics.
package c15

import (
	"bytes"
	"crypto/sha256"
	"encoding/json"
	"fmt"
	"os"
	"os/exec"
	"path/filepath"
	"regexp"
	"sort"
	"strings"
	"testing"

	"github.com/gardenbed/charm/ui"
	"pgregory.net/rapid"

	"github.com/gardenbed/emerge/internal/ebnf/parser/spec"
	"github.com/gardenbed/emerge/internal/generate/golang"
	"github.com/gardenbed/emerge/internal/vh/rec"
)

func TestMain(m *testing.M) { rec.Main(m, "C15") }

// ruleMore describes what was added to the exploration in the build phase.
const ruleMore = "; grammar, definitions and levels are derived four times back to back and twice more with token automaton and LALR(1) table (12 more times when the derivation ends in diagnostics), then the generator runs twice in process and the binary twice"

const rule = "specifications with many definitions (literals incl. case-only variants, keyword-like string tokens, overlapping patterns so that terminals own several accepting states), and with several simultaneous diagnostics " +
	"(undefined tokens, tokens defined twice, duplicate values, unknown predefined names, several independent token conflicts, several LALR conflicts); oracle: 5 in-process Parse+Generate repetitions (each ranges over Go maps with a fresh iteration seed) " +
	"and 2 runs of the binary in fresh processes into empty directories give byte-identical files, the same exit status and the same diagnostics in the same order (ANSI sequences and emoji removed); " +
	"non-trivial = success with a terminal owning >=2 states, or failure with >=2 diagnostics; distinct by specification text"

type input struct {
	Spec string `json:"spec"`
}

var ansi = regexp.MustCompile("\x1b\\[[0-9;]*m")

func clean(s string) string {
	s = ansi.ReplaceAllString(s, "")
	var b strings.Builder
	for _, r := range s {
		if r < 0x80 {
			b.WriteRune(r)
		}
	}
	return b.String()
}

func snapshot(dir string) (map[string]string, error) {
	files := map[string]string{}
	err := filepath.Walk(dir, func(p string, info os.FileInfo, err error) error {
		if err != nil {
			return err
		}
		if info.IsDir() {
			return nil
		}
		data, err := os.ReadFile(p)
		if err != nil {
			return err
		}
		rel, _ := filepath.Rel(dir, p)
		files[rel] = fmt.Sprintf("%x", sha256.Sum256(data))
		return nil
	})
	return files, err
}

func showFiles(f map[string]string) string {
	var ks []string
	for k, v := range f {
		ks = append(ks, k+"="+v[:12])
	}
	sort.Strings(ks)
	return strings.Join(ks, " ")
}

type outcome struct {
	status string
	diag   string
	files  map[string]string
	states int // maximal number of accepting states owned by one terminal
}

func inProcess(src string, countStates bool) (o outcome, err error) {
	dir, err := os.MkdirTemp("", "c15in")
	if err != nil {
		return o, err
	}
	defer os.RemoveAll(dir)
	perr := rec.Guard(func() {
		sp, e := spec.Parse("in.ebnf", strings.NewReader(src))
		if e != nil {
			o.status, o.diag = "parse-error", clean(e.Error())
			return
		}
		if !countStates {
		} else if _, tm, derr := sp.DFA(); derr == nil {
			for _, ss := range tm {
				if len(ss) > o.states {
					o.states = len(ss)
				}
			}
		}
		if e := golang.Generate(ui.NewNop(), &golang.Params{Path: dir, Spec: sp}); e != nil {
			o.status, o.diag = "generate-error", clean(e.Error())
		} else {
			o.status = "ok"
		}
	})
	if perr != nil {
		return o, perr
	}
	o.files, err = snapshot(dir)
	return o, err
}

func process(src string) (o outcome, err error) { return processIn(src, "") }

var grammarName = regexp.MustCompile(`^grammar\s+([a-z][a-z0-9_]*)`)

// processIn runs the binary in a fresh process; pre describes what exists in the output directory before the run:
// "" nothing, "dir" a non-empty <out>/<name>, "file" a file <out>/<name>, "empty" an empty directory <out>/<name>.
func processIn(src, pre string) (o outcome, err error) {
	dir, err := os.MkdirTemp("", "c15proc")
	if err != nil {
		return o, err
	}
	defer os.RemoveAll(dir)
	out := filepath.Join(dir, "out")
	if err := os.Mkdir(out, 0o755); err != nil {
		return o, err
	}
	if m := grammarName.FindStringSubmatch(src); m != nil && pre != "" {
		target := filepath.Join(out, m[1])
		switch pre {
		case "dir":
			_ = os.Mkdir(target, 0o755)
			_ = os.WriteFile(filepath.Join(target, "keep.txt"), []byte("keep\n"), 0o644)
		case "empty":
			_ = os.Mkdir(target, 0o755)
		case "file":
			_ = os.WriteFile(target, []byte("in the way\n"), 0o644)
		}
	}
	file := filepath.Join(dir, "in.ebnf")
	if err := os.WriteFile(file, []byte(src), 0o644); err != nil {
		return o, err
	}
	cmd := exec.Command(os.Getenv("VERIF_EMERGE_BIN"), "-out", out, file)
	cmd.Dir = dir
	var buf bytes.Buffer
	cmd.Stdout, cmd.Stderr = &buf, &buf
	rerr := cmd.Run()
	code := 0
	if ee, ok := rerr.(*exec.ExitError); ok {
		code = ee.ExitCode()
	} else if rerr != nil {
		return o, rerr
	}
	o.status = fmt.Sprintf("exit-%d", code)
	o.diag = strings.ReplaceAll(clean(buf.String()), dir, "<dir>")
	o.files, err = snapshot(out)
	return o, err
}

func sameFiles(a, b map[string]string) bool {
	if len(a) != len(b) {
		return false
	}
	for k, v := range a {
		if b[k] != v {
			return false
		}
	}
	return true
}

// derivation is what emerge derives from a specification before anything is written: grammar, definitions, levels,
// token automaton and LALR(1) table or the diagnostics of each step.  It is cheap, so it is repeated back to back
// (state that survives from one invocation to the next, e.g. in a pool, is most likely to show then).
func derivation(src string, full bool) (string, error) {
	var b strings.Builder
	perr := rec.Guard(func() {
		sp, e := spec.Parse("in.ebnf", strings.NewReader(src))
		if e != nil {
			fmt.Fprintf(&b, "parse-error: %s\n", e)
			return
		}
		fmt.Fprintf(&b, "grammar: %v\n", sp.Grammar)
		for _, d := range sp.Definitions {
			fmt.Fprintf(&b, "def %s=%q regex=%v pos=%v\n", d.Terminal, d.Value, d.IsRegex, d.Pos)
		}
		for i, l := range sp.Precedences {
			fmt.Fprintf(&b, "level%d %s\n", i, l)
		}
		if !full {
			return
		}
		if d, _, derr := sp.DFA(); derr != nil {
			fmt.Fprintf(&b, "dfa-error: %s\n", derr)
		} else {
			fmt.Fprintf(&b, "dfa: %x\n", sha256.Sum256([]byte(d.String())))
		}
		nprods := 0
		for range sp.Grammar.Productions.All() {
			nprods++
		}
		if nprods <= 12 {
			if T, terr := sp.LALRParsingTable(); terr != nil {
				fmt.Fprintf(&b, "lalr-error: %s\n", terr)
			} else if T != nil {
				fmt.Fprintf(&b, "lalr: %x\n", sha256.Sum256([]byte(T.String())))
			}
		}
	})
	return clean(b.String()), perr
}

// inProcessRuns is the number of complete in-process generations that are compared (more for the fixed specifications)
var inProcessRuns = 2

func checkSpec(src string, withProcess bool) (first outcome, err error) {
	// invocations 0-3: grammar, definitions and levels only, back to back; 4 and 5: with automaton and table
	// (a derivation that ends in diagnostics is cheap and is repeated 12 times: a map with few entries is iterated
	// in its usual order three times out of four)
	var d0, d4 string
	reps := 6
	for i := 0; i < reps; i++ {
		d, err := derivation(src, i >= 4)
		if err != nil {
			if strings.Contains(err.Error(), "ComputeLALR1Kernels") || strings.Contains(err.Error(), "lookahead") || rec.QueuePanic(err) {
				break // listed dependency findings (cyclic / unproductive grammars) are C06's and C14's subject
			}
			return first, fmt.Errorf("%v\nspecification:\n%s", err, src)
		}
		switch {
		case i == 0:
			d0 = d
		case i == 4:
			d4 = d
			if strings.Contains(d, "-error: ") {
				reps = 16
			}
		}
		want := d0
		if i >= 4 {
			want = d4
		}
		if d != want || (i == 4 && !strings.HasPrefix(d, d0)) {
			return first, fmt.Errorf("what is derived from the same input differs between two in-process invocations:\n--- invocation 0:\n%s\n--- invocation %d:\n%s\nspecification:\n%s", d0, i, d, src)
		}
	}
	k := inProcessRuns
	for i := 0; i < k; i++ {
		o, err := inProcess(src, i == 0)
		if err != nil {
			return first, fmt.Errorf("%v\nspecification:\n%s", err, src)
		}
		if i == 0 {
			first = o
			continue
		}
		if o.status != first.status {
			return first, fmt.Errorf("repetition %d ends with %s, repetition 0 with %s\nspecification:\n%s", i, o.status, first.status, src)
		}
		if o.diag != first.diag {
			return first, fmt.Errorf("the diagnostics differ between two runs on the same input:\n--- run 0:\n%s\n--- run %d:\n%s\nspecification:\n%s", first.diag, i, o.diag, src)
		}
		if !sameFiles(o.files, first.files) {
			return first, fmt.Errorf("the emitted files differ between two runs on the same input:\n  run 0: %s\n  run %d: %s\nspecification:\n%s", showFiles(first.files), i, showFiles(o.files), src)
		}
	}
	if withProcess {
		p1, err := process(src)
		if err != nil {
			return first, err
		}
		p2, err := process(src)
		if err != nil {
			return first, err
		}
		if p1.status != p2.status || p1.diag != p2.diag {
			return first, fmt.Errorf("two fresh processes on the same input differ in exit status or output:\n--- run 1 (%s):\n%s\n--- run 2 (%s):\n%s\nspecification:\n%s", p1.status, p1.diag, p2.status, p2.diag, src)
		}
		if !sameFiles(p1.files, p2.files) {
			return first, fmt.Errorf("two fresh processes emit different files:\n  run 1: %s\n  run 2: %s\nspecification:\n%s", showFiles(p1.files), showFiles(p2.files), src)
		}
		if first.status == "ok" && p1.status == "exit-0" {
			// the package directory is named after the grammar
			stripped := map[string]string{}
			for k, v := range p1.files {
				stripped[k] = v
			}
			if !sameFiles(stripped, first.files) {
				return first, fmt.Errorf("the binary and the in-process generation emit different files:\n  binary: %s\n  in-process: %s\nspecification:\n%s", showFiles(p1.files), showFiles(first.files), src)
			}
		}
		if (first.status == "ok") != (p1.status == "exit-0") {
			return first, fmt.Errorf("in-process generation ends with %s but the binary with %s\nspecification:\n%s", first.status, p1.status, src)
		}
		// the same options and the same state of the output directory: an occupied <out>/<name>
		if first.status == "ok" {
			for _, pre := range []string{"dir", "file", "empty"} {
				q1, err := processIn(src, pre)
				if err != nil {
					return first, err
				}
				q2, err := processIn(src, pre)
				if err != nil {
					return first, err
				}
				rec.Count("runs_into_an_occupied_output_location", 2)
				if q1.status != q2.status || q1.diag != q2.diag || !sameFiles(q1.files, q2.files) {
					return first, fmt.Errorf("two fresh processes on the same input, with the same pre-existing %q at <out>/<name>, differ:\n--- run 1 (%s):\n%s\n--- run 2 (%s):\n%s\nspecification:\n%s", pre, q1.status, q1.diag, q2.status, q2.diag, src)
				}
			}
		}
	}
	return first, nil
}

// the last entries spell the text of a pattern of regexPool: as a string literal they are other terminals
var literalPool = []string{"e", "E", "x", "X", "if", "IF", "iF", "in", "do", "Do", "+", "++", "-", "=", "==", "(", ")", "ab", "aB", "Ab", "[a-z]+", "[0-9]+", "[A-Z]+", "if|in|do", "[+=-]+"}

type regexTok struct{ name, def string }

var regexPool = []regexTok{
	{"ID", "/[a-z]+/"}, {"WORD", "/[a-z][a-z0-9]*/"}, {"NUM", "/[0-9]+/"}, {"INT", "/[0-9][0-9]*/"}, {"HEX", "/[0-9a-f]+/"},
	{"TYPE", "/[A-Z][a-z]*/"}, {"CONST", "/[A-Z]+/"}, {"STR", "$STRING"}, {"WSP", "$WS"}, {"CMT", "$COMMENT"}, {"NAME", "$ID"}, {"FLT", "$NUMBER"},
	{"OPS", "/[+=-]+/"}, {"KW", "/if|in|do/"},
}

func genSpec(t *rapid.T) string {
	var b strings.Builder
	b.WriteString("grammar det_1;\n")
	var uses []string
	lits := rapid.SliceOfNDistinct(rapid.SampledFrom(literalPool), 1, rec.Pick(5, 8), func(s string) string { return s }).Draw(t, "literals")
	for _, l := range lits {
		uses = append(uses, fmt.Sprintf("%q", l))
	}
	var decls []string
	toks := rapid.SliceOfNDistinct(rapid.SampledFrom(regexPool), 0, rec.Pick(4, 6), func(r regexTok) string { return r.name }).Draw(t, "regexTokens")
	for _, r := range toks {
		decls = append(decls, r.name+" = "+r.def)
		uses = append(uses, r.name)
	}
	// keyword-like string tokens
	for i, n := 0, rapid.IntRange(0, 3).Draw(t, "strTokens"); i < n; i++ {
		name := fmt.Sprintf("KW%d", i)
		decls = append(decls, fmt.Sprintf("%s = %q", name, rapid.SampledFrom([]string{"while", "for", "abc", "a1", "ff", "Z", "Zz"}).Draw(t, "kwv")+fmt.Sprint(i)))
		uses = append(uses, name)
	}
	// simultaneous diagnostics (in about half of the specifications; the others are well-formed up to token and
	// grammar conflicts)
	defects := 0
	if rapid.Bool().Draw(t, "illFormed") {
		defects = 1
	}
	for i, n := 0, defects*rapid.IntRange(0, 3).Draw(t, "undefined"); i < n; i++ {
		uses = append(uses, fmt.Sprintf("UNDEF_%c", 'A'+i))
	}
	for i, n := 0, defects*rapid.IntRange(0, 3).Draw(t, "undefinedNonTerminals"); i < n; i++ {
		uses = append(uses, rapid.SampledFrom([][]string{{"nowhere_a", "nowhere_b", "nowhere_c"}, {"term", "factor", "decl"}, {"stmt", "type", "params"}, {"body", "list", "tail"}, {"aa", "ab", "ba"}}).Draw(t, "undefinedNames")[i])
	}
	for i, n := 0, defects*rapid.IntRange(0, 2).Draw(t, "dupValues"); i < n; i++ {
		decls = append(decls, fmt.Sprintf("DVA%d = \"dup%d\"", i, i), fmt.Sprintf("DVB%d = \"dup%d\"", i, i))
	}
	for i, n := 0, defects*rapid.IntRange(0, 2).Draw(t, "multiDefs"); i < n; i++ {
		decls = append(decls, fmt.Sprintf("MD%d = \"m%da\"", i, i), fmt.Sprintf("MD%d = \"m%db\"", i, i))
	}
	for i, n := 0, defects*rapid.IntRange(0, 2).Draw(t, "badPredefs"); i < n; i++ {
		decls = append(decls, fmt.Sprintf("BP%d = $NOPE%d", i, i))
	}
	decls = rapid.Permutation(decls).Draw(t, "declOrder")
	uses = rapid.Permutation(uses).Draw(t, "useOrder")
	split := rapid.IntRange(0, len(decls)).Draw(t, "declsFirst")
	for _, d := range decls[:split] {
		b.WriteString(d + "\n")
	}
	switch rapid.IntRange(0, 2).Draw(t, "shape") {
	case 0:
		fmt.Fprintf(&b, "start = %s;\n", strings.Join(uses, " | "))
	case 1: // ambiguous: several LALR conflicts
		fmt.Fprintf(&b, "start = start start | start \"+\" start | start \"-\" start | %s;\n", strings.Join(uses, " | "))
	default:
		fmt.Fprintf(&b, "start = {{ item }};\nitem = %s;\n", strings.Join(uses, " | "))
	}
	for _, d := range decls[split:] {
		b.WriteString(d + "\n")
	}
	return b.String()
}

func TestRepeatedRunsAgree(t *testing.T) {
	rec.Rule(rule + ruleMore)
	hasBin := false
	if _, err := os.Stat(os.Getenv("VERIF_EMERGE_BIN")); err == nil {
		hasBin = true
	}
	rec.Check(t, 40, 4000, func(t *rapid.T) {
		src := genSpec(t)
		o, err := checkSpec(src, hasBin)
		ndiag := strings.Count(o.diag, "\n") + 1
		if o.diag == "" {
			ndiag = 0
		}
		cls := []string{"status_" + o.status}
		if o.states >= 2 {
			cls = append(cls, "terminal_with_several_states")
		}
		if ndiag >= 2 {
			cls = append(cls, "several_diagnostics")
		}
		if strings.Contains(o.diag, "conflict") {
			cls = append(cls, "conflict_diagnostics")
		}
		nt := (o.status == "ok" && o.states >= 2) || (o.status != "ok" && ndiag >= 2)
		rec.Case(src, nt, cls...)
		if nt {
			rec.Sample(o.status, src)
		}
		if err != nil {
			rec.Fail(t, "spec", input{Spec: src}, "%v", err)
		}
	})
}

// manyDiagnostics: a dozen and more problems of one kind in one specification (a limit, a batch or a page of a
// report must not make the selection or the order depend on the run).
func manyDiagnostics() []string {
	var out []string
	names := []string{"alpha", "beta", "gamma", "delta", "eps", "zeta", "eta", "theta", "iota", "kappa", "lambda", "mu", "nu", "xi", "omicron", "pi", "rho", "sigma"}
	for _, n := range []int{11, 14, 18} {
		var a, b, c, d, e strings.Builder
		a.WriteString("grammar g;\nstart = \"x\"")
		b.WriteString("grammar g;\nstart = \"x\"")
		c.WriteString("grammar g;\n")
		d.WriteString("grammar g;\n")
		e.WriteString("grammar g;\n")
		var cu, du, eu []string
		for i := 0; i < n; i++ {
			fmt.Fprintf(&a, " | %s", names[i])                                                                              // undefined non-terminals
			fmt.Fprintf(&b, " | %s", strings.ToUpper(names[i])+"_T")                                                        // undefined tokens
			fmt.Fprintf(&c, "%s_A = \"v%d\"\n%s_B = \"v%d\"\n", strings.ToUpper(names[i]), i, strings.ToUpper(names[i]), i) // same value twice
			cu = append(cu, strings.ToUpper(names[i])+"_A", strings.ToUpper(names[i])+"_B")
			fmt.Fprintf(&d, "%s_P = /%c{3,%d}/\n", strings.ToUpper(names[i]), 'a'+i, i%3) // invalid patterns
			du = append(du, strings.ToUpper(names[i])+"_P")
			fmt.Fprintf(&e, "%s_D = $NOPE%d\n", strings.ToUpper(names[i]), i) // unknown predefined names
			eu = append(eu, strings.ToUpper(names[i])+"_D")
		}
		a.WriteString(";\n")
		b.WriteString(";\n")
		fmt.Fprintf(&c, "start = %s;\n", strings.Join(cu, " | "))
		fmt.Fprintf(&d, "start = %s;\n", strings.Join(du, " | "))
		fmt.Fprintf(&e, "start = %s;\n", strings.Join(eu, " | "))
		out = append(out, a.String(), b.String(), c.String(), d.String(), e.String())
	}
	return out
}

func TestFixedSpecs(t *testing.T) {
	rec.Begin(t)
	rec.Rule(rule + ruleMore)
	if rec.Shard() != 0 {
		t.Skip("seed independent: shard 0 only")
	}
	specs := []string{
		"grammar g;\nstart = \"e\" | \"E\" | \"x\" | \"X\" | \"ab\" | \"aB\" | \"Ab\" | \"AB\" | ID;\nID = /[a-z]+/\n",
		"grammar g;\nNUM = /[0-9]+/\nINT = /[0-9][0-9]*/\nID = /[a-z]+/\nNAME = /[a-z][a-z]*/\nTYPE = /[A-Z][a-z]*/\nCONST = /[A-Z]+/\nstart = NUM | INT | ID | NAME | TYPE | CONST;\n",
		"grammar g;\nstart = AA | BB | CC | DD;\nXA = \"v\"\nXB = \"v\"\nYA = \"w\"\nYB = \"w\"\nZA = \"u\"\nZB = \"u\"\n",
		"grammar g;\nstart = start \"+\" start | start \"-\" start | start \"*\" start | start start | \"i\";\n",
		"grammar g;\nstart = aa bb cc dd ee | \"x\";\n",
		"grammar g;\nstart = term factor decl stmt | type params body | list tail | \"x\";\n",
		"grammar g;\nAB = /a{3,2}/\nCD = /[z-a]/\nEF = /(/\nGH = /b{2,1}/\nstart = AB CD EF GH;\n",
		"grammar g;\nIF = \"if\"\nPLUS = \"+\"\nADD = \"+\"\nSUM = \"+\"\nstart = IF \"if\" PLUS ADD SUM;\n",
		// definitions without a position of their own (string literals) that collide: two spellings of the same text
		"grammar g;\nNUM = /[0-9]+/\nstart = NUM \"-\" NUM | NUM \"\\-\" \"\\-\" NUM | \"a\" \"\\a\" | \"+\" \"\\+\";\n",
		// conflicts whose report names several synthesised rules
		"grammar g;\nNUM = /[0-9]+/\nstart = expr;\nexpr = expr ( \"+\" | \"-\" ) expr | expr ( \"*\" | \"/\" ) expr | [ \"-\" \"-\" ] NUM | { \"!\" \"?\" } \"x\";\n",
		// handles in two levels, several at once
		"grammar g;\n@left \"+\" \"-\" \"*\"\n@right \"-\" \"+\" \"*\"\n@none \"*\" \"+\"\nstart = start \"+\" start | start \"-\" start | start \"*\" start | \"i\";\n",
		// in this order: a text that is a pattern in one specification and a string literal in the next one (and the
		// other way round); the files emitted in this process must equal those of a fresh process
		"grammar seq_a;\nAS = /a+/\nstart = AS \"b\";\n",
		"grammar seq_b;\nstart = \"a+\" \"b\";\n",
		"grammar seq_c;\nstart = \"[0-9]+\" \"x?\";\n",
		"grammar seq_d;\nNUM = /[0-9]+/\nOPT = /x?y/\nstart = NUM OPT;\n",
		// a token that owns no state of the automaton (every text it matches is a string literal) among several others
		"grammar g;\nKW = /if|fi/\nID = /[a-z][a-z]+x/\nNUM = /[0-9]+/\nSTR = $STRING\nstart = { KW | \"if\" | \"fi\" | ID | NUM | STR | \"+\" | \"-\" };\n",
		// a pattern that is meaningless in a well-formed prefix and unparsable as a whole, as the last pattern
		"grammar g;\nID = /[a-z]+/\nINT = /[0-9a-z_-]/\nstart = ID INT;\n",
		"grammar g;\nAA = /x{3,1})/\nstart = AA \"y\";\n",
		// several tokens used without definition, several unknown predefined names
		"grammar g;\nAA = $NOPE\nBB = $NADA\nCC = $NIX\nstart = AA BB CC DD EE FF;\n",
	}
	specs = append(specs, manyDiagnostics()...)
	specs = append(specs,
		// the same group written several times, with a string and a rule that are spelled alike among its alternatives
		"grammar g;\nstart = ( \"if\" | if ) ( \"if\" | if ) [ \"if\" | if ] [ \"if\" | if ] { if | \"if\" } { \"if\" | if };\nif = \"x\" | \"y\";\n",
		"grammar g;\nID = /[a-z]+/\nstart = ( id | \"id\" | ID ) ( \"id\" | ID | id ) ( ID | id | \"id\" );\nid = \"0\";\n",
		// unknown predefined names close to two of the predefined ones
		"grammar g;\nAA = $NL\nBB = $OP\nCC = $X\nDD = $WD\nEE = $IS\nFF = $IB\nGG = $STRIN\nstart = AA BB CC DD EE FF GG;\n",
		// named string tokens and literals of every length from one to six (an order by length, name or text must be total)
		"grammar g;\nKW = \"begin\"\nSEP = \";\"\nstart = KW SEP \"end\" | \"x\";\n",
		"grammar g;\nTA = \"a\"\nTBB = \"bb\"\nTCCC = \"ccc\"\nU = \"dddd\"\nVV = \"eeeee\"\nWWWWWW = \"f\"\nID = /[g-z]+/\nstart = { TA | TBB | TCCC | U | VV | WWWWWW | ID | \"g\" | \"hh\" | \"iii\" | \"jjjj\" | \"kkkkk\" | \"llllll\" };\n",
		"grammar g;\nLONGNAME = \"+\"\nS = \"minus\"\nMID = \"**\"\nstart = start LONGNAME start | start S start | start MID start | start \"/\" start | start \"mod\" start | \"n\";\n",
	)
	inProcessRuns = 6
	defer func() { inProcessRuns = 2 }()
	for _, s := range specs {
		o, err := checkSpec(s, true)
		rec.Case(s, true, "fixed", "status_"+o.status)
		rec.Sample("fixed_"+o.status, s)
		if err != nil {
			rec.Fail(t, "spec", input{Spec: s}, "%v", err)
		}
	}
}

func TestReplay(t *testing.T) {
	if !rec.IsReplay() {
		t.Skip("not in replay mode")
	}
	_, raw, _ := rec.Replay()
	var in input
	if err := json.Unmarshal(raw, &in); err != nil {
		t.Fatal(err)
	}
	if _, err := checkSpec(in.Spec, true); err != nil {
		rec.Fail(t, "spec", in, "%v", err)
	}
}
