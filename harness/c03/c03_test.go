// Package c03 decides property C03: the combined scanner automaton is the exact union of the definitions,
// attributes every accepting state to the right terminal, and reports conflicts iff they are real.
package c03

import (
	"encoding/json"
	"fmt"
	"regexp"
	"sort"
	"strings"
	"sync"
	"testing"

	auto "github.com/moorara/algo/automata"
	"github.com/moorara/algo/grammar"
	"pgregory.net/rapid"

	"github.com/gardenbed/emerge/internal/ebnf/parser/spec"
	"github.com/gardenbed/emerge/internal/regex/parser/nfa"
	"github.com/gardenbed/emerge/internal/vh/gen"
	"github.com/gardenbed/emerge/internal/vh/rec"
	"github.com/gardenbed/emerge/internal/vh/ref"
)

func TestMain(m *testing.M) { rec.Main(m, "C03") }

const (
	rule = "sets of 2-6 definitions (implicit string literals incl. escaped quote/backslash, named string tokens, patterns over a small overlapping alphabet, predefined patterns; " +
		"declaration order shuffled) printed as a specification; oracle: breadth-first exploration of the full product (combined state x one reference automaton per definition): " +
		"final iff some definition matches, owner = the only matching definition or the single matching literal, DFA() errs iff some reachable tuple has >=2 matches without exactly one literal, " +
		"the error names only colliding definitions; non-trivial = at least one pair of definitions with intersecting languages; distinct by specification text"
	nulKey = "nul-epsilon"
)

var nulOnce sync.Once
var nulFlag bool

func nulTolerated() bool {
	nulOnce.Do(func() {
		n, err := nfa.Parse(".")
		if err != nil {
			return
		}
		nulFlag = rec.Known(nulKey, n.ToDFA().Accept(nil))
	})
	return nulFlag
}

// Def is one terminal definition of the generated specification.
type Def struct {
	Name    string   `json:"name"`    // terminal name as emerge reports it
	Kind    string   `json:"kind"`    // literal | strtoken | pattern | predef
	Text    string   `json:"text"`    // literal source text (with escapes) / pattern text / predef name
	Chars   string   `json:"chars"`   // literal denotation
	Tree    *ref.Pat `json:"tree"`    // pattern tree
	Literal bool     `json:"literal"` // string based definition
}

type input struct {
	Defs []*Def `json:"defs"`
	Spec string `json:"spec"`
}

var kwPool = []string{"a", "b", "ab", "aa", "aba", "if", "in", "int", "+", "++", "=", "==", "b9", `"`, `\`, `a"b`, `\\`, `i"`, "n", "9", `a\b`, `\x`, `\\`, `x\y`, "xy"}

func escapeLiteral(s string) string {
	var b strings.Builder
	for _, r := range s {
		if r == '"' || r == '\\' {
			b.WriteByte('\\')
		}
		b.WriteRune(r)
	}
	return b.String()
}

func smallPat(t *rapid.T, depth int) *ref.Pat {
	if depth == 0 {
		switch rapid.IntRange(0, 6).Draw(t, "a") {
		case 0, 1, 2:
			p := &ref.Pat{K: "lit", R: rapid.SampledFrom([]rune{'a', 'b', 'i', 'n', 't', '9', '+', '=', '"', '\\', 'a', 'b', 0xE9, 0xE8, 0x1F60, 0x1F600}).Draw(t, "r")}
			if rapid.IntRange(0, 3).Draw(t, "spelled") == 0 {
				p.Spell = rapid.SampledFrom([]int{2, 4, 5, 6, 7, 8}).Draw(t, "form")
			}
			return p
		case 3:
			return &ref.Pat{K: "cls", Name: rapid.SampledFrom([]string{`\d`, `\w`}).Draw(t, "c")}
		case 4:
			return &ref.Pat{K: "br", Items: []*ref.Pat{{K: "rng", R: 'a', R2: rapid.SampledFrom([]rune{'b', 'n', 'z'}).Draw(t, "hi")}}}
		case 5:
			return &ref.Pat{K: "any"}
		default:
			items := []*ref.Pat{{K: "lit", R: 'a'}}
			if rapid.Bool().Draw(t, "nonASCIIItem") {
				// one to three characters outside ASCII, in any order (a group is a set: the order says nothing)
				k := rapid.IntRange(1, 3).Draw(t, "nonASCIIItems")
				for _, r := range rapid.Permutation([]rune{0xE9, 0xE8, 0xE0, 0x1F60, 0x1F600}).Draw(t, "items")[:k] {
					items = append(items, &ref.Pat{K: "lit", R: r})
				}
			}
			return &ref.Pat{K: "br", Neg: rapid.IntRange(0, 3).Draw(t, "negated") != 0, Items: items}
		}
	}
	switch rapid.IntRange(0, 4).Draw(t, "k") {
	case 0:
		return smallPat(t, 0)
	case 1, 2:
		p := &ref.Pat{K: "cat"}
		for i, n := 0, rapid.IntRange(2, 3).Draw(t, "n"); i < n; i++ {
			s := smallPat(t, depth-1)
			if s.K == "alt" || s.K == "cat" {
				s = &ref.Pat{K: "grp", Subs: []*ref.Pat{s}}
			}
			p.Subs = append(p.Subs, s)
		}
		return p
	case 3:
		p := &ref.Pat{K: "alt"}
		for i, n := 0, rapid.IntRange(2, 3).Draw(t, "n"); i < n; i++ {
			s := smallPat(t, depth-1)
			if s.K == "alt" {
				s = &ref.Pat{K: "grp", Subs: []*ref.Pat{s}}
			}
			p.Subs = append(p.Subs, s)
		}
		return p
	default:
		s := smallPat(t, depth-1)
		if s.K == "alt" || s.K == "cat" || s.K == "q" {
			s = &ref.Pat{K: "grp", Subs: []*ref.Pat{s}}
		}
		q := &ref.Pat{K: "q", Subs: []*ref.Pat{s}}
		gen.Quant(q, rapid.IntRange(0, 5).Draw(t, "qf"), rapid.IntRange(0, 2).Draw(t, "qn"), rapid.IntRange(0, 2).Draw(t, "qm"))
		q.Lazy = rapid.IntRange(0, 3).Draw(t, "lazy") == 0 // a lazy quantifier denotes the same language
		return q
	}
}

func genDefs(t *rapid.T) []*Def {
	n := rapid.IntRange(2, 6).Draw(t, "ndefs")
	var defs []*Def
	usedValue := map[string]bool{}
	usedName := map[string]bool{}
	for i := 0; i < n; i++ {
		switch rapid.IntRange(0, 9).Draw(t, "kind") {
		case 0, 1, 2, 3: // implicit literal used in a rule
			s := rapid.SampledFrom(kwPool).Draw(t, "kw")
			src := escapeLiteral(s)
			if usedValue[src] {
				continue
			}
			usedValue[src] = true
			defs = append(defs, &Def{Name: src, Kind: "literal", Text: src, Chars: s, Literal: true})
		case 4: // named token with a string value
			s := rapid.SampledFrom(kwPool).Draw(t, "kw")
			src := escapeLiteral(s)
			name := fmt.Sprintf("S%d", i)
			if usedValue[src] || usedName[name] {
				continue
			}
			usedValue[src], usedName[name] = true, true
			defs = append(defs, &Def{Name: name, Kind: "strtoken", Text: src, Chars: s, Literal: true})
		case 5: // predefined pattern
			pn := rapid.SampledFrom(gen.PredefNames).Draw(t, "predef")
			name := fmt.Sprintf("P%d", i)
			if usedValue[gen.PredefTexts[pn]] {
				continue
			}
			usedValue[gen.PredefTexts[pn]] = true
			defs = append(defs, &Def{Name: name, Kind: "predef", Text: pn, Tree: gen.PredefPats()[pn]})
		default:
			p := smallPat(t, rapid.IntRange(0, 2).Draw(t, "d"))
			txt := p.String()
			if rapid.IntRange(0, 5).Draw(t, "anchored") == 0 {
				txt = "^" + txt // regex = [ "^" ] expr: the same language, a token is matched from its first character
			}
			if usedValue[txt] {
				continue
			}
			usedValue[txt] = true
			defs = append(defs, &Def{Name: fmt.Sprintf("T%d", i), Kind: "pattern", Text: txt, Tree: p})
		}
	}
	return defs
}

func printSpec(t *rapid.T, defs []*Def) string {
	var decls, uses []string
	for _, d := range defs {
		switch d.Kind {
		case "literal":
			uses = append(uses, `"`+d.Text+`"`)
		case "strtoken":
			decls = append(decls, fmt.Sprintf("%s = \"%s\"", d.Name, d.Text))
			uses = append(uses, d.Name)
		case "predef":
			decls = append(decls, fmt.Sprintf("%s = %s", d.Name, d.Text))
			uses = append(uses, d.Name)
		default:
			decls = append(decls, fmt.Sprintf("%s = /%s/", d.Name, d.Text))
			uses = append(uses, d.Name)
		}
	}
	if t != nil {
		decls = rapid.Permutation(decls).Draw(t, "declOrder")
		uses = rapid.Permutation(uses).Draw(t, "useOrder")
	}
	before := len(decls)
	if t != nil {
		before = rapid.IntRange(0, len(decls)).Draw(t, "declsBeforeRule")
	}
	var b strings.Builder
	b.WriteString("grammar g;\n")
	for _, d := range decls[:before] {
		b.WriteString(d + "\n")
	}
	fmt.Fprintf(&b, "start = %s;\n", strings.Join(uses, " | "))
	for _, d := range decls[before:] {
		b.WriteString(d + "\n")
	}
	return b.String()
}

var confLine = regexp.MustCompile(`(?m)^\s+.*:\s("(?:[^"\\]|\\.)*")\s*$`)

// checkSet is the oracle for one definition set printed as src.
func checkSet(defs []*Def, src string) (intersecting bool, realConflict bool, err error) {
	var sp *spec.Spec
	var perr, derr error
	var dfa *auto.DFA
	var termMap map[grammar.Terminal][]auto.State
	// a third of the sets (chosen by a digest of the text) is processed right after a set whose patterns are wrong in
	// two ways at once (meaningless and unparsable): its diagnostics belong to it alone
	h := uint32(2166136261)
	for i := 0; i < len(src); i++ {
		h = (h ^ uint32(src[i])) * 16777619
	}
	if h%3 == 0 {
		_ = rec.Guard(func() {
			if bad, err := spec.Parse("bad.ebnf", strings.NewReader("grammar bad;\nAA = /[0-9]{4,2}(/\nBB = /[z-a][0-9/\nCC = /x{3,1})/\nstart = AA BB CC;\n")); err == nil {
				_, _, _ = bad.DFA()
			}
		})
		rec.Count("sets_processed_right_after_a_set_of_wrong_patterns", 1)
	}
	if g := rec.Guard(func() {
		sp, perr = spec.Parse("t.ebnf", strings.NewReader(src))
		if perr == nil {
			dfa, termMap, derr = sp.DFA()
		}
	}); g != nil {
		if rec.QueuePanic(g) {
			return false, false, nil // listed dependency finding, identified by its call site
		}
		return false, false, fmt.Errorf("%v\nspecification:\n%s", g, src)
	}
	if perr != nil {
		return false, false, fmt.Errorf("well-formed specification rejected: %v\nspecification:\n%s", perr, src)
	}
	if derr == nil && (dfa == nil || termMap == nil) {
		return false, false, fmt.Errorf("DFA() returned neither an automaton nor an error\nspecification:\n%s", src)
	}
	refs := make([]*ref.RefDFA, len(defs))
	for i, d := range defs {
		if d.Literal {
			refs[i] = ref.NewRefString([]rune(d.Chars))
		} else {
			strict := ref.NewRef(d.Tree, false)
			if strict.NulHit && nulTolerated() {
				strict = ref.NewRef(d.Tree, true)
				rec.Class("nul_tolerant_oracle", 1)
			}
			refs[i] = strict
		}
	}
	owner := map[auto.State]grammar.Terminal{}
	for a, ss := range termMap {
		for _, s := range ss {
			if prev, ok := owner[s]; ok && prev != a {
				return false, false, fmt.Errorf("state %d is attributed to both %s and %s\nspecification:\n%s", s, prev, a, src)
			}
			owner[s] = a
		}
	}
	known := map[string]bool{}
	for _, d := range defs {
		known[d.Name] = true
	}
	for a := range termMap {
		if !known[string(a)] {
			return false, false, fmt.Errorf("DFA() attributes states to %s, which is not a terminal of the specification\nspecification:\n%s", a, src)
		}
	}
	alpha := ref.Alphabet(refs, dfa)
	type node struct {
		s  auto.State
		rs []int
		w  string
	}
	start := make([]int, len(defs))
	s0 := auto.State(-1)
	if dfa != nil {
		s0 = dfa.Start
	}
	key := func(s auto.State, rs []int) string { return fmt.Sprint(s, rs) }
	seen := map[string]bool{key(s0, start): true}
	queue := []node{{s0, start, ""}}
	colliding := map[int]bool{}
	conflictOn := ""
	wins := map[string]bool{}
	for len(queue) > 0 {
		nd := queue[0]
		queue = queue[1:]
		var M []int
		for i, r := range refs {
			if r.Accepting(nd.rs[i]) {
				M = append(M, i)
			}
		}
		lits, litIdx := 0, -1
		for _, i := range M {
			if defs[i].Literal {
				lits++
				litIdx = i
			}
		}
		if len(M) >= 2 {
			intersecting = true
			if lits != 1 {
				if !realConflict {
					conflictOn = nd.w
				}
				realConflict = true
				for _, i := range M {
					colliding[i] = true
				}
			}
		}
		if derr == nil {
			fin := nd.s >= 0 && dfa.Final.Contains(nd.s)
			if fin != (len(M) > 0) {
				var names []string
				for _, i := range M {
					names = append(names, defs[i].Name)
				}
				return intersecting, realConflict, fmt.Errorf("on input %q the combined automaton accepts=%v but the definitions matching it are %v (not the exact union)\nspecification:\n%s", nd.w, fin, names, src)
			}
			if fin {
				want := ""
				if len(M) == 1 {
					want = defs[M[0]].Name
				} else if lits == 1 {
					want = defs[litIdx].Name
				}
				got, owned := owner[nd.s]
				if want != "" {
					wins[want] = true
					if !owned || string(got) != want {
						return intersecting, realConflict, fmt.Errorf("on input %q the accepting state %d is attributed to %q, it must be %q\nspecification:\n%s", nd.w, nd.s, got, want, src)
					}
				}
			}
		}
		for _, r := range alpha {
			nrs := make([]int, len(refs))
			live := false
			for i, rf := range refs {
				nrs[i] = rf.Next(nd.rs[i], r)
				if !rf.Dead(nrs[i]) {
					live = true
				}
			}
			ns := auto.State(-1)
			if dfa != nil && nd.s >= 0 {
				ns = dfa.Next(nd.s, auto.Symbol(r))
			}
			if !live && ns < 0 {
				continue
			}
			k := key(ns, nrs)
			if !seen[k] {
				seen[k] = true
				queue = append(queue, node{ns, nrs, nd.w + string(r)})
			}
		}
	}
	if realConflict && derr == nil {
		return intersecting, realConflict, fmt.Errorf("the text %q is matched by two definitions with no single literal to break the tie, but DFA() reports no conflict\nspecification:\n%s", conflictOn, src)
	}
	if !realConflict && derr != nil {
		return intersecting, realConflict, fmt.Errorf("DFA() reports %v although no text is matched by two definitions without a single literal breaking the tie\nspecification:\n%s", derr, src)
	}
	if derr != nil {
		if !strings.Contains(strings.ToLower(derr.Error()), "conflict") {
			return intersecting, realConflict, fmt.Errorf("DFA() fails with an error that is not a conflict report: %v\nspecification:\n%s", derr, src)
		}
		byName := map[string]int{}
		for i, d := range defs {
			byName[fmt.Sprintf("%q", d.Name)] = i
		}
		for _, m := range confLine.FindAllStringSubmatch(derr.Error(), -1) {
			i, ok := byName[m[1]]
			if !ok {
				return intersecting, realConflict, fmt.Errorf("the conflict report names %s, which is not a definition of the specification: %v\nspecification:\n%s", m[1], derr, src)
			}
			if !colliding[i] {
				return intersecting, realConflict, fmt.Errorf("the conflict report names %s, which takes part in no real collision: %v\nspecification:\n%s", m[1], derr, src)
			}
		}
	} else {
		// a terminal that never wins owns no state
		for a, ss := range termMap {
			if len(ss) > 0 && !wins[string(a)] {
				return intersecting, realConflict, fmt.Errorf("terminal %s owns states %v but wins on no text\nspecification:\n%s", a, ss, src)
			}
		}
	}
	return intersecting, realConflict, nil
}

type tb interface {
	Helper()
	Fatalf(string, ...any)
}

func runSet(t tb, defs []*Def, src string) {
	inter, conflict, err := checkSet(defs, src)
	kinds := map[string]bool{}
	for _, d := range defs {
		kinds[d.Kind] = true
		if d.Literal && strings.ContainsAny(d.Chars, `"\`) {
			kinds["escaped_literal"] = true
		}
	}
	var cls []string
	for k := range kinds {
		cls = append(cls, "has_"+k)
	}
	sort.Strings(cls)
	if inter {
		cls = append(cls, "intersecting")
	}
	if conflict {
		cls = append(cls, "real_conflict")
	} else if inter {
		cls = append(cls, "literal_breaks_tie")
	}
	rec.Case(src, inter, cls...)
	if inter {
		lbl := "intersecting"
		if conflict {
			lbl = "conflict"
		}
		rec.Sample(lbl, src)
	}
	if err != nil {
		rec.Fail(t, "defset", input{Defs: defs, Spec: src}, "%v", err)
	}
}

func TestFixedSets(t *testing.T) {
	rec.Begin(t)
	rec.Rule(rule)
	if rec.Shard() != 0 {
		t.Skip("seed independent: shard 0 only")
	}
	lit := func(s string) *Def { return &Def{Name: escapeLiteral(s), Kind: "literal", Text: escapeLiteral(s), Chars: s, Literal: true} }
	pat := func(name string, p *ref.Pat) *Def { return &Def{Name: name, Kind: "pattern", Text: p.String(), Tree: p} }
	pre := func(name, pn string) *Def { return &Def{Name: name, Kind: "predef", Text: pn, Tree: gen.PredefPats()[pn]} }
	l := func(r rune) *ref.Pat { return &ref.Pat{K: "lit", R: r} }
	word := &ref.Pat{K: "q", Subs: []*ref.Pat{{K: "br", Items: []*ref.Pat{{K: "rng", R: 'a', R2: 'z'}}}}, Min: 1, Max: -1, QForm: "+"}
	kw := &ref.Pat{K: "alt", Subs: []*ref.Pat{{K: "cat", Subs: []*ref.Pat{l('i'), l('f')}}, {K: "cat", Subs: []*ref.Pat{l('e'), l('l'), l('s'), l('e')}}}}
	sets := [][]*Def{
		{lit("if"), pat("ID", word)},                                 // keyword over identifier
		{lit("if"), lit("else"), lit("while"), pat("KW", kw), pat("ID", word)}, // one literal against two patterns
		{pat("KW", kw), pat("ID", word)},                             // two patterns, real conflict
		{lit(`"`), lit(`\`), lit(`a"b`)},                             // escapes denote their characters
		{lit(`say"`), pat("QQ", l('"'))},                              // literal ending in an escaped quote
		{pre("ID", "$ID"), pre("NUM", "$NUMBER"), lit("-"), lit("x1")},
		{pre("STR", "$STRING"), lit(`"a"`)},
		{pre("CM", "$COMMENT"), lit("#"), lit("//"), lit("/")},
		{&Def{Name: "IF", Kind: "strtoken", Text: "if", Chars: "if", Literal: true}, pat("ID", word)},
		{&Def{Name: "IF", Kind: "strtoken", Text: "if", Chars: "if", Literal: true}, lit("i"), pat("ID", word), pat("I2", &ref.Pat{K: "cat", Subs: []*ref.Pat{l('i'), {K: "grp", Subs: []*ref.Pat{l('f')}}}})},
	}
	// patterns made of literal characters and escapes only (escaped backslashes next to plain characters), a pattern
	// that matches nothing before others, zero-padded counts
	word2 := func(w string) *ref.Pat {
		c := &ref.Pat{K: "cat"}
		for _, r := range w {
			c.Subs = append(c.Subs, l(r))
		}
		return c
	}
	nothing := &ref.Pat{K: "br", Neg: true, Items: []*ref.Pat{{K: "rng", R: 0x01, R2: 0x7F}, {K: "lit", R: 0}}}
	padded := &ref.Pat{K: "q", Subs: []*ref.Pat{{K: "br", Items: []*ref.Pat{{K: "rng", R: '0', R2: '9'}}}}, Min: 10, Max: 10, QForm: "{010}"} // ten, not eight
	plain8 := &ref.Pat{K: "q", Subs: []*ref.Pat{{K: "br", Items: []*ref.Pat{{K: "rng", R: '0', R2: '9'}}}}, Min: 8, Max: 8, QForm: "{8}"}
	sets = append(sets,
		[]*Def{pat("PATH", word2(`C:\tmp`)), pat("BS", word2(`\\`)), pat("AB", word2(`a\b`)), lit("C:tmp"), lit(`\`)},
		[]*Def{pat("DOT", word2(`a.b*`)), pat("WORD", word), lit("a.b*")},
		[]*Def{pat("ID", word), pat("UC", nothing), pat("NUM", &ref.Pat{K: "q", Subs: []*ref.Pat{{K: "br", Items: []*ref.Pat{{K: "rng", R: '0', R2: '9'}}}}, Min: 1, Max: -1, QForm: "+"}), pat("UP", &ref.Pat{K: "q", Subs: []*ref.Pat{{K: "br", Items: []*ref.Pat{{K: "rng", R: 'A', R2: 'Z'}}}}, Min: 1, Max: -1, QForm: "+"})},
		[]*Def{pat("UC", nothing), pat("ID", word), lit("if")},
		[]*Def{pat("OCT", padded), pat("SEVENS", plain8), lit("x")},
	)
	for _, defs := range sets {
		runSet(t, defs, printSpec(nil, defs))
	}
}

func TestRandomDefinitionSets(t *testing.T) {
	rec.Rule(rule)
	rec.Assume("the empty string counts as a text (two patterns that both match it collide); a pattern whose text coincides with a literal's text is not generated (the documentation does not say whether a pattern has a 'string value'); literals use only the escapes \\\" and \\\\")
	if nulTolerated() {
		rec.Assume("listed finding nul-epsilon: a character set containing code point 0 may also match the empty string; nothing else is tolerated")
	}
	rec.Check(t, 4000, 60000, func(t *rapid.T) {
		defs := genDefs(t)
		if len(defs) < 2 {
			defs = append(defs, &Def{Name: "zz", Kind: "literal", Text: "zz", Chars: "zz", Literal: true}, &Def{Name: "TZ", Kind: "pattern", Text: "z+", Tree: &ref.Pat{K: "q", Subs: []*ref.Pat{{K: "lit", R: 'z'}}, Min: 1, Max: -1, QForm: "+"}})
		}
		runSet(t, defs, printSpec(t, defs))
	})
}

func TestReplay(t *testing.T) {
	if !rec.IsReplay() {
		t.Skip("not in replay mode")
	}
	_, raw, _ := rec.Replay()
	var in input
	if err := json.Unmarshal(raw, &in); err != nil {
		t.Fatal(err)
	}
	if _, _, err := checkSet(in.Defs, in.Spec); err != nil {
		rec.Fail(t, "defset", in, "%v", err)
	}
}
