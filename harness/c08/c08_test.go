// Package c08 decides property C08: the emitted lexer is valid stand-alone Go that encodes exactly the token automaton.
package c08

import (
	"encoding/json"
	"errors"
	"flag"
	"fmt"
	"go/ast"
	"go/build"
	"go/importer"
	"go/parser"
	"go/token"
	"go/types"
	"os"
	"os/exec"
	"path/filepath"
	"sort"
	"strconv"
	"strings"
	"sync"
	"testing"

	"github.com/gardenbed/charm/ui"
	auto "github.com/moorara/algo/automata"
	"pgregory.net/rapid"

	"github.com/gardenbed/emerge/internal/ebnf/parser/spec"
	"github.com/gardenbed/emerge/internal/generate/golang"
	"github.com/gardenbed/emerge/internal/vh/emit"
	"github.com/gardenbed/emerge/internal/vh/rec"
)

func TestMain(m *testing.M) {
	rec.Init("C08")
	_ = flag.Set("rapid.shrinktime", "20s") // every shrink attempt compiles a batch
	rec.Run(m)
}

const rule = "accepted specifications biased to what stresses rendering: literals and patterns containing quotes, backslash, backquote, percent, braces, control characters (tab, newline, CR, 0x01-0x08, DEL), non-ASCII and surrogate code points, " +
	"terminals that lose every accepting state to a literal, terminals named WS/EOL/ERR, many states; oracle per specification: (a) every emitted file parses, imports only the standard library and the package type-checks (go/types), " +
	"(b) the package is compiled with the real compiler (batches) and the emitted transition function is dumped for every state 0..max+1 x (every symbol of the automaton + probe characters) and compared with the automaton emerge computed, " +
	"and the emitted accepting-state table names exactly the owner of every accepting state and ERR for every other state; non-trivial = a symbol needs escaping in Go source or a terminal owns no state; distinct by specification text"

type input struct {
	Spec string `json:"spec"`
	Name string `json:"name,omitempty"`
}

var literalPool = []string{`'`, `\"`, `\\`, "`", "%", "%d", "{{", "}}", "{{.X}}", `'a'`, `\\'`, "if", "else", "a", "+", "++", "/*", "*/", "//", `\\n`, "$", "#", "~"}

type tokDef struct{ name, def string }

// none of these patterns collides with another one (only literal-versus-pattern overlaps occur)
var tokenPool = []tokDef{
	{"TAB", `/\x09+/`}, {"WS", "$WS"}, {"CTRL", `/[\x01-\x08]/`}, {"DEL", `/\x7F/`}, {"EACUTE", `/\x00E9+/`}, {"CJK", `/[\x4E2D\x6587]+/`},
	{"SQ", `/'[a-z]*'/`}, {"DQ", `/"[a-z]"/`}, {"BSL", `/\\[a-z]/`}, {"BQ", "/`+/"}, {"PCT", `/%[a-z]/`}, {"KWIF", `/i(f)/`}, {"KWELSE", `/e(lse)/`},
	{"NUM", `/[0-9]+/`}, {"SURR", `/\xD800z/`}, {"SURR2", `/[\xD800\xDBFF]y/`}, {"HIGH", `/\x0010FFFF/`}, {"EOL", `/\x0A\x0D?/`}, {"ERR", `/!+/`}, {"NUL", `/\x0000E000/`},
	{"BRK", `/[\[\]\{\}\(\)]x/`}, {"CARET", `/\x5E+/`}, {"APOS", `/\x27\x27/`}, {"UNI", `/[\x0080-\x00FF]_/`},
}

func genSpec(t *rapid.T) string {
	var b strings.Builder
	b.WriteString("grammar emitme;\n")
	var uses []string
	lits := rapid.SliceOfNDistinct(rapid.SampledFrom(literalPool), 0, 6, func(s string) string { return s }).Draw(t, "literals")
	for _, l := range lits {
		uses = append(uses, `"`+l+`"`)
	}
	toks := rapid.SliceOfNDistinct(rapid.SampledFrom(tokenPool), 1, 6, func(d tokDef) string { return d.name }).Draw(t, "tokens")
	for _, d := range toks {
		fmt.Fprintf(&b, "%s = %s\n", d.name, d.def)
		uses = append(uses, d.name)
	}
	// a named string token that takes all states of a pattern
	if rapid.IntRange(0, 2).Draw(t, "shadow") == 0 {
		b.WriteString("SHADOW = \"if\"\n")
		uses = append(uses, "SHADOW")
	}
	uses = rapid.Permutation(uses).Draw(t, "order")
	fmt.Fprintf(&b, "start = %s;\n", strings.Join(uses, " | "))
	return b.String()
}

type prepared struct {
	src     string
	sp      *spec.Spec
	dfa     *auto.DFA
	owner   map[auto.State]string
	noState []string
	escapes bool
}

// prepare parses the specification and computes its automaton; ok is false if it is not an accepted specification.
func prepare(src string) (*prepared, bool, error) {
	p := &prepared{src: src, owner: map[auto.State]string{}}
	var perr, derr error
	var tm map[string][]auto.State
	if g := rec.Guard(func() {
		p.sp, perr = spec.Parse("e.ebnf", strings.NewReader(src))
		if perr == nil {
			d, m, err := p.sp.DFA()
			p.dfa, derr = d, err
			tm = map[string][]auto.State{}
			for a, ss := range m {
				tm[string(a)] = ss
			}
		}
	}); g != nil {
		if rec.QueuePanic(g) {
			return nil, false, nil // listed dependency finding, identified by its call site: the specification is skipped
		}
		return nil, false, g
	}
	if perr != nil || derr != nil {
		return nil, false, nil
	}
	for a, ss := range tm {
		for _, s := range ss {
			p.owner[s] = a
		}
	}
	for _, d := range p.sp.Definitions {
		if len(tm[string(d.Terminal)]) == 0 {
			p.noState = append(p.noState, string(d.Terminal))
		}
	}
	for _, a := range p.dfa.Symbols() {
		r := rune(a)
		if r == '\'' || r == '\\' || r == '"' || r < 0x20 || r >= 0x7F {
			p.escapes = true
		}
	}
	return p, true, nil
}

var (
	impOnce sync.Once
	imp     types.Importer
)

// checkStatic generates the package and checks (a): parses, standard library only, type-checks.
func checkStatic(p *prepared) error {
	dir, err := os.MkdirTemp("", "c08gen")
	if err != nil {
		return err
	}
	defer os.RemoveAll(dir)
	var gerr error
	if g := rec.Guard(func() { gerr = golang.Generate(ui.NewNop(), &golang.Params{Path: dir, Spec: p.sp}) }); g != nil {
		return fmt.Errorf("%v\nspecification:\n%s", g, p.src)
	}
	if gerr != nil {
		return fmt.Errorf("generation fails for an accepted specification: %v\nspecification:\n%s", gerr, p.src)
	}
	fset := token.NewFileSet()
	pkgDir := filepath.Join(dir, p.sp.Name)
	entries, err := os.ReadDir(pkgDir)
	if err != nil {
		return err
	}
	var files []*ast.File
	for _, e := range entries {
		data, _ := os.ReadFile(filepath.Join(pkgDir, e.Name()))
		f, err := parser.ParseFile(fset, e.Name(), data, parser.AllErrors)
		if err != nil {
			return fmt.Errorf("emitted file %s is not valid Go: %v\nspecification:\n%s", e.Name(), err, p.src)
		}
		if f.Name.Name != p.sp.Name {
			return fmt.Errorf("emitted file %s declares package %s, not %s", e.Name(), f.Name.Name, p.sp.Name)
		}
		for _, im := range f.Imports {
			path, _ := strconv.Unquote(im.Path.Value)
			if strings.Contains(strings.SplitN(path, "/", 2)[0], ".") {
				return fmt.Errorf("emitted file %s imports %s, which is not part of the standard library", e.Name(), path)
			}
		}
		files = append(files, f)
	}
	if len(files) != 6 {
		return fmt.Errorf("%d files emitted, expected 6\nspecification:\n%s", len(files), p.src)
	}
	impOnce.Do(func() {
		// the harness is built with -trimpath, so the standard library must be located explicitly
		if out, err := exec.Command("go", "env", "GOROOT").Output(); err == nil {
			build.Default.GOROOT = strings.TrimSpace(string(out))
		}
		imp = importer.ForCompiler(token.NewFileSet(), "source", nil)
	})
	conf := types.Config{Importer: imp}
	if _, err := conf.Check(p.sp.Name, fset, files, nil); err != nil {
		return fmt.Errorf("the emitted package does not type-check: %v\nspecification:\n%s", err, p.src)
	}
	return nil
}

// Package names: the emitted files carry the name of the specification (or the one set by the caller) in their
// package clause; the result must be valid Go for every name the generator accepts, and names that are no Go
// identifiers (or keywords, or the blank identifier) cannot yield a valid package, so they must be refused.
func TestPackageNames(t *testing.T) {
	rec.Begin(t)
	rec.Rule(rule)
	if rec.Shard() != 0 {
		t.Skip("seed independent: shard 0 only")
	}
	names := []string{"pkg", "P2", "\u00fcber", "x_1", "x\u0663", "\u00e9t\u00e9", "_x", "\u03a9mega", "a\u0660\u0661", "x\u00b2", "v\u00bd", "ch\u2163", "n\u2460_1", "\u0663x", "9x", "a-b", "a b", "a\u0301", "_", "func", "fallthrough", "select", "x.y", "", "a\u200db"}
	for _, name := range names {
		p, ok, err := prepare("grammar placeholder;\nID = /[a-z]+/\nstart = { ID | \"if\" };\n")
		if err != nil || !ok {
			t.Fatalf("harness: fixed specification not accepted: %v", err)
		}
		p.sp.Name = name
		usable := token.IsIdentifier(name) && name != "_"
		rec.Case("package-name:"+name, true, "package_name", fmt.Sprintf("package_name_usable=%v", usable))
		dir, err := os.MkdirTemp("", "c08name")
		if err != nil {
			t.Fatal(err)
		}
		var gerr error
		if g := rec.Guard(func() { gerr = golang.Generate(ui.NewNop(), &golang.Params{Path: dir, Spec: p.sp}) }); g != nil {
			os.RemoveAll(dir)
			rec.Fail(t, "name", input{Spec: p.src, Name: name}, "package name %q: %v", name, g)
			continue
		}
		os.RemoveAll(dir)
		switch {
		case usable && gerr != nil:
			rec.Fail(t, "name", input{Spec: p.src, Name: name}, "the generator refuses the package name %q, a Go identifier: %v", name, gerr)
		case usable && gerr == nil:
			if err := checkStatic(p); err != nil {
				rec.Fail(t, "name", input{Spec: p.src, Name: name}, "package name %q: %v", name, err)
			}
		case !usable && gerr == nil:
			rec.Fail(t, "name", input{Spec: p.src, Name: name}, "the generator accepts the package name %q and reports success, but no Go package can have that name (every emitted file starts with 'package %s')", name, name)
		}
	}
}

func probes(d *auto.DFA) []rune {
	seen := map[rune]bool{}
	var out []rune
	add := func(r rune) {
		if r >= 0 && r <= 0x10FFFF && !seen[r] {
			seen[r] = true
			out = append(out, r)
		}
	}
	for _, a := range d.Symbols() {
		r := rune(a)
		if !seen[r] {
			// every symbol of the automaton, also one that is no code point (an eight-digit escape)
			seen[r] = true
			out = append(out, r)
		}
		add(r - 1)
		add(r + 1)
	}
	for _, r := range []rune{0, 1, '\t', '\n', '\r', ' ', '"', '\'', '\\', '`', '%', 0x7F, 0x80, 0xE9, 0x4E2D, 0xD800, 0xDFFF, 0xFFFD, 0x10FFFF, 'a', 'z', '0'} {
		add(r)
	}
	sort.Slice(out, func(i, j int) bool { return out[i] < out[j] })
	return out
}

// checkDump compares the dump of the compiled package with the automaton.
func checkDump(p *prepared, runes []rune, maxState int, res *emit.DumpResult) error {
	if len(res.Next) != maxState+1 || len(res.Eval) != maxState+1 {
		return fmt.Errorf("driver returned %d states, expected %d", len(res.Next), maxState+1)
	}
	for s := 0; s <= maxState; s++ {
		for i, r := range runes {
			want := int(p.dfa.Next(auto.State(s), auto.Symbol(r)))
			if s >= maxState { // one state beyond the last
				want = -1
			}
			if got := res.Next[s][i]; got != want {
				return fmt.Errorf("emitted advanceDFA(%d, %q U+%04X) = %d, the automaton goes to %d\nspecification:\n%s", s, r, r, got, want, p.src)
			}
		}
		want := "ERR"
		if o, ok := p.owner[auto.State(s)]; ok && p.dfa.Final.Contains(auto.State(s)) {
			want = o
		}
		if res.Eval[s] != want {
			return fmt.Errorf("emitted evalDFA(%d) yields terminal %q, the automaton attributes state %d to %q\nspecification:\n%s", s, res.Eval[s], s, want, p.src)
		}
	}
	return nil
}

func maxStateOf(d *auto.DFA) int {
	m := 0
	for _, s := range d.States() {
		if int(s) > m {
			m = int(s)
		}
	}
	return m + 1
}

// checkBatch compiles a batch and compares every dump.
func checkBatch(ps []*prepared) (failedIdx int, err error) {
	b, err := emit.NewBatch()
	if err != nil {
		return -1, err
	}
	defer b.Close()
	names := make([]string, len(ps))
	for i, p := range ps {
		var gerr error
		if g := rec.Guard(func() { names[i], gerr = b.Add(p.sp) }); g != nil {
			return i, fmt.Errorf("%v\nspecification:\n%s", g, p.src)
		}
		if gerr != nil {
			return i, fmt.Errorf("generation fails for an accepted specification: %v\nspecification:\n%s", gerr, p.src)
		}
	}
	bin, err := b.Build()
	if errors.Is(err, emit.ErrHarness) {
		fmt.Println("HARNESS:", err)
		os.Exit(4) // inconclusive: the export shim no longer fits the emitted code
	}
	if err != nil {
		// attribute the compiler error to a package
		idx := 0
		for i, n := range names {
			if strings.Contains(err.Error(), n+"/") || strings.Contains(err.Error(), "emitted/"+n) {
				idx = i
				break
			}
		}
		return idx, fmt.Errorf("the emitted package does not compile: %v\nspecification:\n%s", err, ps[idx].src)
	}
	var jobs []emit.Job
	runesOf := make([][]rune, len(ps))
	for i, p := range ps {
		runesOf[i] = probes(p.dfa)
		jobs = append(jobs, emit.Job{Pkg: names[i], Mode: "dump", MaxState: maxStateOf(p.dfa), Runes: runesOf[i]})
	}
	raw, err := emit.Run(bin, jobs)
	if err == emit.ErrTimeout {
		rec.Count("inconclusive_driver_starved", 1) // a busy machine, not a verdict
		return -1, nil
	}
	if err != nil {
		return 0, fmt.Errorf("the driver linked with the emitted packages fails: %v", err)
	}
	for i, p := range ps {
		var res emit.DumpResult
		if err := json.Unmarshal(raw[i], &res); err != nil {
			return i, err
		}
		if err := checkDump(p, runesOf[i], maxStateOf(p.dfa), &res); err != nil {
			return i, err
		}
		rec.Count("dumped_state_symbol_pairs", (maxStateOf(p.dfa)+1)*len(runesOf[i]))
	}
	return -1, nil
}

func note(p *prepared, label string) {
	var cls []string
	if p.escapes {
		cls = append(cls, "symbol_needs_escaping")
	}
	if len(p.noState) > 0 {
		cls = append(cls, "terminal_without_state")
	}
	cls = append(cls, fmt.Sprintf("states_%d0s", len(p.dfa.States())/10))
	rec.Case(p.src, p.escapes || len(p.noState) > 0, cls...)
	rec.Sample(label+strings.Join(cls, ","), p.src)
}

func TestBatches(t *testing.T) {
	rec.Rule(rule)
	rec.Check(t, 6, 192, func(t *rapid.T) {
		var ps []*prepared
		for len(ps) < 12 {
			src := genSpec(t)
			p, ok, err := prepare(src)
			if err != nil {
				rec.Fail(t, "spec", input{Spec: src}, "%v", err)
			}
			if !ok {
				rec.Count("skipped_not_accepted", 1)
				continue
			}
			note(p, "")
			if err := checkStatic(p); err != nil {
				rec.Fail(t, "spec", input{Spec: src}, "%v", err)
			}
			ps = append(ps, p)
		}
		if idx, err := checkBatch(ps); err != nil {
			if idx < 0 {
				t.Fatalf("harness: %v", err)
			}
			rec.Fail(t, "spec", input{Spec: ps[idx].src}, "%v", err)
		}
	})
}

func TestFixedSpecs(t *testing.T) {
	rec.Begin(t)
	rec.Rule(rule)
	if rec.Shard() != 0 {
		t.Skip("seed independent: shard 0 only")
	}
	specs := []string{
		"grammar calc;\nID = $ID\nNUM = $NUMBER\nSTR = $STRING\nWS = $WS\nCOMMENT = $COMMENT\nIF = \"if\"\nstart = ID | NUM | STR | WS | COMMENT | IF | \"'\" | \"\\\"\" | \"\\\\\" | \"`\" | \"%\";\n",
		"grammar g;\nKW = \"if\"\nID = /i(f)/\nstart = KW | ID;\n",
		"grammar g;\nHALF = /\\xD800z/\nREPL = /\\xFFFDz/\nstart = HALF | REPL;\n",
		"grammar g;\nPAD = /x*/\nstart = PAD \"y\";\n",
		"grammar g;\nANY = /./\nstart = ANY | \"x\" | \"'\";\n",
		// symbol groups of equal size that agree under common digests (sum, xor, 31-polynomial): a table writer that
		// abbreviates, caches or de-duplicates groups by such a digest confuses them
		"grammar g;\nRA = /r[<>]/\nCA = /c[;\\]]/\nPA = /p[Ab]/\nQA = /q[BC]/\nSA = /s[ad]/\nTA = /t[bc]/\nUA = /u[ae]/\nVA = /v[bd]/\nWA = /w[\\x21\\x40]/\nXA = /x[\\x20\\x41]/\nstart = RA | CA | PA | QA | SA | TA | UA | VA | WA | XA;\n",
		// symbols outside the basic plane and outside Unicode (eight-digit escapes), alone in a group and sharing one
		"grammar g;\nEMO = /\\x0001F600\\x00010000\\x0010FFFF/\nNEG = /a(\\xFFFFFFFF|b)c/\nOUT = /[y\\xFFFFFFFF]z/\nBIG = /\\x00110000|\\x7FFFFFFF|\\x80000000/\nstart = EMO | NEG | OUT | BIG;\n",
		// two tokens that end in the same repetition behind different prefixes (states with equal outgoing transitions but
		// for their own number); a state with exactly 127 outgoing symbols that are not all ASCII
		"grammar g;\nID = /[a-z]+/\nVAR = /\\$[a-z]+/\nAT = /@[a-z]+/\nNUM = /[0-9]+/\nHEX = /#[0-9]+/\nstart = ID | VAR | AT | NUM | HEX;\n",
		"grammar g;\nSTR = /\"([^\"\\x0A]|\\x00E9)*\"/\nstart = STR;\n",
		"grammar g;\nQQ = /'([^'a]|\\x4E2D)+'/\nstart = QQ \"a\";\n",
		// symbol groups of one state that interleave (no group is a range), of equal and of different sizes
		"grammar g;\nEVEN = /[02468]+/\nODD = /[13579]+/\nstart = EVEN | ODD;\n",
		"grammar g;\nAA = /[acegikmoqsuwy][0-9]/\nBB = /[bdfhjlnprtvxz]x/\nCC = /[AEIOU]+/\nDD = /[BCDFGHJKLMNPQRSTVWXYZ]y/\nstart = AA | BB | CC | DD;\n",
		"grammar g;\nLO = /[\\x0430\\x0432\\x0434\\x0436]/\nHI = /[\\x0431\\x0433\\x0435\\x0437]z/\nstart = LO | HI | \"\\x\";\n",
		// classes with hundreds and thousands of symbols: long groups and long lines in the emitted transition function
		"grammar g;\nGREEK = /\\p{Greek}+/\nUP = /\\p{Lu}x/\nID = /[a-z]+/\nstart = GREEK | UP | ID;\n",
		"grammar g;\nHAN = /[\\x4E00-\\x9FFF]+/\nHANGUL = /[\\xAC00-\\xD7A3]/\nstart = HAN | HANGUL | \"x\";\n",
		// terminals whose text would end a comment or a string in the emitted source
		"grammar g;\nstart = \"*/\" | \"/*\" | \"*/case(99):/*\" | \"//\" | \"`+`\" | \"\\\"+\\\"\" ;\n",
	}
	var ps []*prepared
	for _, s := range specs {
		p, ok, err := prepare(s)
		if err != nil || !ok {
			t.Fatalf("harness: fixed specification not accepted: %v\n%s", err, s)
		}
		note(p, "fixed-")
		if err := checkStatic(p); err != nil {
			rec.Fail(t, "spec", input{Spec: s}, "%v", err)
		}
		ps = append(ps, p)
	}
	if idx, err := checkBatch(ps); err != nil {
		if idx < 0 {
			t.Fatalf("harness: %v", err)
		}
		rec.Fail(t, "spec", input{Spec: ps[idx].src}, "%v", err)
	}
}

func TestReplay(t *testing.T) {
	if !rec.IsReplay() {
		t.Skip("not in replay mode")
	}
	_, raw, _ := rec.Replay()
	var in input
	if err := json.Unmarshal(raw, &in); err != nil {
		t.Fatal(err)
	}
	p, ok, err := prepare(in.Spec)
	if err != nil || !ok {
		t.Fatalf("the specification is not accepted: %v", err)
	}
	if err := checkStatic(p); err != nil {
		rec.Fail(t, "spec", in, "%v", err)
	}
	if _, err := checkBatch([]*prepared{p}); err != nil {
		rec.Fail(t, "spec", in, "%v", err)
	}
}
