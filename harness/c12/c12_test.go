// Package c12 decides property C12: the recorded precedence levels are exactly the directives, in order, with their handles.
package c12

import (
	"encoding/json"
	"fmt"
	"sort"
	"strings"
	"testing"

	"github.com/moorara/algo/grammar"
	"github.com/moorara/algo/parser/lr"
	"pgregory.net/rapid"

	"github.com/gardenbed/emerge/internal/ebnf/parser/spec"
	"github.com/gardenbed/emerge/internal/vh/gen"
	"github.com/gardenbed/emerge/internal/vh/rec"
	"github.com/gardenbed/emerge/internal/vh/ref"
)

func TestMain(m *testing.M) { rec.Main(m, "C12") }

// ruleMore describes what was added to the exploration in the build phase.
const ruleMore = "; when every alternative of every rule handle is, up to the order of alternatives, an alternative of a rule with that name, the grammar must have as many productions and non-terminals as the specification without its directives"

const rule = "specifications with 0-6 directives interleaved with token and rule declarations (before, between and after the rules they mention); handles: string literals, named tokens, rule handles without operators, " +
	"with alternation (several productions), with extended operators, with duplicated alternatives, with terminals in the body; oracle: Spec.Precedences has one level per directive in source order with the written associativity; " +
	"its terminal handles are exactly the listed terminals; the production handles with head h are members of Grammar.Productions and denote exactly the top-level alternatives of the rule handles written for h " +
	"(compared by bounded language through the derived grammar, i.e. modulo synthesised names); non-trivial = >=2 levels and >=1 rule handle; distinct by specification text"

type input struct {
	Model *ref.SpecModel `json:"model"`
	Spec  string         `json:"spec"`
}

func assocOf(a lr.Associativity) string {
	switch a {
	case lr.LEFT:
		return "@left"
	case lr.RIGHT:
		return "@right"
	case lr.NONE:
		return "@none"
	}
	return fmt.Sprint(int(a))
}

func langKey(l ref.Lang) string {
	ks := make([]string, 0, len(l))
	for k := range l {
		ks = append(ks, k)
	}
	sort.Strings(ks)
	return strings.Join(ks, "\x1e")
}

// kept is the specification parsed for the previous case with its levels as recorded then: a specification a caller
// holds on to must keep its levels when another one is parsed afterwards.
var kept struct {
	sp     *spec.Spec
	levels string
	src    string
}

func renderLevels(sp *spec.Spec) string {
	var b strings.Builder
	for i, l := range sp.Precedences {
		fmt.Fprintf(&b, "level %d: %v\n", i, l)
	}
	return b.String()
}

func checkModel(m *ref.SpecModel, src string) error {
	var sp *spec.Spec
	var err error
	if perr := rec.Guard(func() { sp, err = spec.Parse("t.ebnf", ref.Source(src)) }); perr != nil {
		return fmt.Errorf("%v\nspecification:\n%s", perr, src)
	}
	if err != nil {
		return fmt.Errorf("well-formed specification rejected: %v\nspecification:\n%s", err, src)
	}
	if kept.sp != nil {
		if now := renderLevels(kept.sp); now != kept.levels {
			was, prevSrc := kept.levels, kept.src
			kept.sp = nil
			return fmt.Errorf("parsing this specification changed the levels recorded for the specification parsed before it:\n--- recorded then:\n%s--- now:\n%s--- the earlier specification:\n%s\n--- this specification:\n%s", was, now, prevSrc, src)
		}
	}
	kept.sp, kept.levels, kept.src = sp, renderLevels(sp), src
	var dirs []*ref.Decl
	for _, d := range m.Decls {
		if d.Kind == "directive" {
			dirs = append(dirs, d)
		}
	}
	if len(sp.Precedences) != len(dirs) {
		return fmt.Errorf("%d precedence levels are recorded, the specification has %d directives\nspecification:\n%s", len(sp.Precedences), len(dirs), src)
	}
	const n = 4
	var prods []ref.CFGProduction
	for p := range sp.Grammar.Productions.All() {
		cp := ref.CFGProduction{Head: string(p.Head)}
		for _, s := range p.Body {
			switch v := s.(type) {
			case grammar.Terminal:
				cp.Body = append(cp.Body, "t:"+string(v))
			case grammar.NonTerminal:
				cp.Body = append(cp.Body, "n:"+string(v))
			}
		}
		prods = append(prods, cp)
	}
	cfgEnv := ref.CFGLanguages(prods, n)
	modelEnv := ref.ModelLanguages(m.Rules(), n)
	for i, d := range dirs {
		lvl := sp.Precedences[i]
		if lvl == nil {
			return fmt.Errorf("precedence level %d is nil\nspecification:\n%s", i, src)
		}
		if assocOf(lvl.Associativity) != d.Assoc {
			return fmt.Errorf("level %d is recorded as %s, directive %d of the specification is %s\nspecification:\n%s", i, assocOf(lvl.Associativity), i, d.Assoc, src)
		}
		wantTerms := map[string]bool{}
		wantAlts := map[string]map[string]bool{} // head -> language keys of the top-level alternatives
		nAlts := map[string]int{}
		for _, h := range d.Handles {
			if h.Term != nil {
				wantTerms[h.Term.Name] = true
				continue
			}
			head := h.Rule.Name
			if wantAlts[head] == nil {
				wantAlts[head] = map[string]bool{}
			}
			var alts []*ref.RHS
			switch {
			case h.Rule.RHS == nil:
				alts = []*ref.RHS{{K: "empty"}}
			case h.Rule.RHS.K == "alt":
				alts = h.Rule.RHS.Subs
			default:
				alts = []*ref.RHS{h.Rule.RHS}
			}
			for _, a := range alts {
				wantAlts[head][langKey(evalIn(a, modelEnv, n))] = true
				nAlts[head]++
			}
		}
		gotTerms := map[string]bool{}
		gotAlts := map[string]map[string]bool{}
		gotN := map[string]int{}
		for h := range lvl.Handles.All() {
			switch {
			case h.Terminal != nil && h.Production == nil:
				gotTerms[string(*h.Terminal)] = true
			case h.Production != nil && h.Terminal == nil:
				p := h.Production
				member := false
				for q := range sp.Grammar.Productions.All() {
					member = member || q.Equal(p)
				}
				if !member {
					return fmt.Errorf("level %d holds the production %s, which is not a production of the grammar\nspecification:\n%s", i, p, src)
				}
				head := string(p.Head)
				l := ref.Lang{"": true}
				for _, s := range p.Body {
					switch v := s.(type) {
					case grammar.Terminal:
						l = l.Cat(ref.Lang{string(v): true}, n)
					case grammar.NonTerminal:
						l = l.Cat(cfgEnv[string(v)], n)
					}
				}
				if gotAlts[head] == nil {
					gotAlts[head] = map[string]bool{}
				}
				gotAlts[head][langKey(l)] = true
				gotN[head]++
			default:
				return fmt.Errorf("level %d holds a handle that is neither a terminal nor a production\nspecification:\n%s", i, src)
			}
		}
		for tname := range wantTerms {
			if !gotTerms[tname] {
				return fmt.Errorf("level %d (%s) lacks the terminal %q listed in directive %d (recorded terminals: %v)\nspecification:\n%s", i, d.Assoc, tname, i, keys(gotTerms), src)
			}
		}
		for tname := range gotTerms {
			if !wantTerms[tname] {
				return fmt.Errorf("level %d (%s) holds the terminal %q, which directive %d does not list\nspecification:\n%s", i, d.Assoc, tname, i, src)
			}
		}
		for head, want := range wantAlts {
			got := gotAlts[head]
			for k := range want {
				if !got[k] {
					return fmt.Errorf("level %d lacks a production for an alternative of the rule handle <%s = ...> of directive %d (it records %d productions with that head)\nspecification:\n%s", i, head, i, gotN[head], src)
				}
			}
			for k := range got {
				if !want[k] {
					return fmt.Errorf("level %d holds a production with head %s that is none of the alternatives of the rule handle written in directive %d\nspecification:\n%s", i, head, i, src)
				}
			}
			if gotN[head] > nAlts[head] {
				return fmt.Errorf("level %d holds %d productions with head %s, the rule handles of directive %d have only %d alternatives\nspecification:\n%s", i, gotN[head], head, i, nAlts[head], src)
			}
		}
		for head := range gotAlts {
			if wantAlts[head] == nil {
				return fmt.Errorf("level %d holds a production with head %s, directive %d has no rule handle for it\nspecification:\n%s", i, head, i, src)
			}
		}
	}
	if err := checkNoAddedProductions(m, sp, src); err != nil {
		return err
	}
	// what is recorded stays recorded: building the parsing table (what the tool does next) reads the levels
	if len(sp.Productions()) <= 7 {
		before := renderLevels(sp)
		_ = rec.Guard(func() { _, _ = sp.LALRParsingTable() })
		rec.Count("levels_read_again_after_table_construction", 1)
		if now := renderLevels(sp); now != before {
			return fmt.Errorf("after the LALR(1) table was built from the specification, the recorded levels are no longer the directives:\n--- recorded by Parse:\n%s--- after LALRParsingTable():\n%s\nspecification:\n%s", before, now, src)
		}
	}
	return nil
}

// canon is the text of a right-hand side with the alternatives of every alternation in a fixed order.
func canon(r *ref.RHS) string {
	if r == nil {
		return "empty"
	}
	var subs []string
	for _, s := range r.Subs {
		subs = append(subs, canon(s))
	}
	if r.K == "alt" {
		sort.Strings(subs)
	}
	return r.K + ":" + r.Name + "(" + strings.Join(subs, ",") + ")"
}

func topAlts(r *ref.RHS) []*ref.RHS {
	switch {
	case r == nil:
		return []*ref.RHS{{K: "empty"}}
	case r.K == "alt":
		return r.Subs
	}
	return []*ref.RHS{r}
}

// checkNoAddedProductions: when every alternative of every rule handle is, up to the order in which alternatives are
// listed, an alternative of a rule with that name, each handle names a production the rules define; the grammar is
// then the grammar of the specification without its directives (same number of productions and non-terminals).
func checkNoAddedProductions(m *ref.SpecModel, sp *spec.Spec, src string) error {
	ruleAlts := map[string]map[string]bool{}
	for _, r := range m.Decls {
		if r.Kind != "rule" {
			continue
		}
		if ruleAlts[r.Name] == nil {
			ruleAlts[r.Name] = map[string]bool{}
		}
		for _, a := range topAlts(r.RHS) {
			ruleAlts[r.Name][canon(a)] = true
		}
	}
	handles := 0
	plain := &ref.SpecModel{Name: m.Name, NameSemi: m.NameSemi}
	for _, d := range m.Decls {
		if d.Kind != "directive" {
			c := *d
			plain.Decls = append(plain.Decls, &c)
			continue
		}
		for _, h := range d.Handles {
			if h.Rule == nil {
				continue
			}
			handles++
			for _, a := range topAlts(h.Rule.RHS) {
				if !ruleAlts[h.Rule.Name][canon(a)] {
					return nil // the handle names a production of its own
				}
			}
		}
	}
	if handles == 0 {
		return nil
	}
	plain.FixSemis()
	psrc := plain.Text()
	var psp *spec.Spec
	var err error
	if perr := rec.Guard(func() { psp, err = spec.Parse("t.ebnf", ref.Source(psrc)) }); perr != nil || err != nil {
		return nil // the specification without directives is not this property's concern
	}
	rec.Count("handles_all_naming_rule_productions", 1)
	count := func(s *spec.Spec) (np, nn int) {
		for range s.Grammar.Productions.All() {
			np++
		}
		for range s.Grammar.NonTerminals.All() {
			nn++
		}
		return
	}
	np, nn := count(sp)
	pp, pn := count(psp)
	if np != pp || nn != pn {
		return fmt.Errorf("every rule handle names a production the rules define, but the grammar has %d productions and %d non-terminals; without the directives it has %d and %d: a handle added a production instead of naming the rule's\nspecification:\n%s\ngrammar:\n%v\ngrammar without directives:\n%v", np, nn, pp, pn, src, sp.Grammar, psp.Grammar)
	}
	return nil
}

func keys(m map[string]bool) []string {
	var out []string
	for k := range m {
		out = append(out, k)
	}
	sort.Strings(out)
	return out
}

// evalIn evaluates one alternative in the environment of the whole specification.
func evalIn(a *ref.RHS, env map[string]ref.Lang, n int) ref.Lang {
	rules := []*ref.Decl{{Name: "\x00alt", RHS: a}}
	// ModelLanguages needs the other rules for references: rebuild an environment with a fresh rule
	e := map[string]ref.Lang{}
	for k, v := range env {
		e[k] = v
	}
	return ref.EvalRHS(a, e, n, rules)
}

// shuffled copies a right-hand side with the non-empty alternatives of every alternation in a drawn order.
func shuffled(t *rapid.T, r *ref.RHS) *ref.RHS {
	c := &ref.RHS{K: r.K, Name: r.Name}
	for _, s := range r.Subs {
		c.Subs = append(c.Subs, shuffled(t, s))
	}
	if c.K == "alt" {
		n := len(c.Subs)
		if n > 0 && c.Subs[n-1].K == "empty" {
			n--
		}
		perm := rapid.Permutation(c.Subs[:n]).Draw(t, "altOrder")
		copy(c.Subs[:n], perm)
	}
	return c
}

func TestPrecedenceLevels(t *testing.T) {
	rec.Rule(rule + ruleMore)
	opts := gen.SpecOpts{MaxRules: 3, Depth: 3, Literals: []string{"a", "b", "+", "-", "*"}, Tokens: []string{"TK", "NUM", "ID"}, Directives: 6, RuleHandles: true, DupRules: true, EmptyRules: true}
	rec.Check(t, 8000, 120000, func(t *rapid.T) {
		m := gen.Spec(t, opts)
		ruleHandles, levels, named := 0, 0, 0
		for _, d := range m.Decls {
			if d.Kind != "directive" {
				continue
			}
			levels++
			for _, h := range d.Handles {
				if h.Rule == nil {
					continue
				}
				ruleHandles++
				// a handle that names productions the rules define, alternatives listed in another order
				if rapid.Bool().Draw(t, "nameRuleProduction") {
					var cands []*ref.RHS
					for _, r := range m.Decls {
						if r.Kind == "rule" && r.Name == h.Rule.Name && r.RHS != nil {
							cands = append(cands, topAlts(r.RHS)...)
						}
					}
					var picked []*ref.RHS
					for _, c := range cands {
						if c.K != "empty" && rapid.Bool().Draw(t, "pickAlt") {
							picked = append(picked, shuffled(t, c))
						}
					}
					if len(picked) == 1 {
						h.Rule.RHS = picked[0]
						named++
					} else if len(picked) > 1 {
						h.Rule.RHS = &ref.RHS{K: "alt", Subs: picked}
						named++
					}
				}
				// duplicated alternatives
				if h.Rule.RHS != nil && h.Rule.RHS.K == "alt" && rapid.IntRange(0, 3).Draw(t, "dupAlt") == 0 {
					first := h.Rule.RHS.Subs[0]
					h.Rule.RHS.Subs = append([]*ref.RHS{first}, h.Rule.RHS.Subs...)
				}
			}
			// the same terminal listed twice in one directive
			if len(d.Handles) > 0 && d.Handles[0].Term != nil && rapid.IntRange(0, 5).Draw(t, "dupTerm") == 0 {
				d.Handles = append(d.Handles, &ref.Handle{Term: d.Handles[0].Term})
			}
		}
		m.FixSemis()
		src := m.Text()
		if rapid.Bool().Draw(t, "drawnLayout") {
			toks := m.Tokens()
			src, _ = ref.Render(toks, gen.Seps(t, toks))
		}
		var cls []string
		cls = append(cls, fmt.Sprintf("levels_%d", levels))
		if ruleHandles > 0 {
			cls = append(cls, "rule_handle")
		}
		if named > 0 {
			cls = append(cls, "rule_handle_naming_rule_alternatives")
		}
		// position of directives relative to the rules they mention
		seenRule := map[string]bool{}
		for _, d := range m.Decls {
			if d.Kind == "rule" {
				seenRule[d.Name] = true
			}
			if d.Kind == "directive" {
				for _, h := range d.Handles {
					if h.Rule != nil {
						if seenRule[h.Rule.Name] {
							cls = append(cls, "rule_handle_after_its_rule")
						} else {
							cls = append(cls, "rule_handle_before_its_rule")
						}
					}
				}
			}
		}
		nt := levels >= 2 && ruleHandles >= 1
		rec.Case(src, nt, cls...)
		if nt {
			rec.Sample(fmt.Sprintf("levels%d", levels), src)
		}
		if err := checkModel(m, src); err != nil {
			rec.Fail(t, "model", input{Model: m, Spec: src}, "%v", err)
		}
	})
}

// alternatives of one rule handle whose symbol names run together to the same text (un op e / unop e; "a" "b" / "ab";
// x y / xy): each is a production of its own
func TestAlternativesWithConcatenatingNames(t *testing.T) {
	rec.Begin(t)
	rec.Rule(rule)
	if rec.Shard() != 0 {
		t.Skip("seed independent: shard 0 only")
	}
	nt := func(s string) *ref.RHS { return &ref.RHS{K: "nt", Name: s} }
	str := func(s string) *ref.RHS { return &ref.RHS{K: "str", Name: s} }
	cat := func(s ...*ref.RHS) *ref.RHS { return &ref.RHS{K: "cat", Subs: s} }
	alt := func(s ...*ref.RHS) *ref.RHS { return &ref.RHS{K: "alt", Subs: s} }
	rule := func(name string, r *ref.RHS) *ref.Decl { return &ref.Decl{Kind: "rule", Name: name, RHS: r, Semi: true} }
	for i, body := range []*ref.RHS{
		alt(cat(nt("un"), nt("op"), nt("e")), cat(nt("unop"), nt("e"))),
		alt(cat(nt("e"), nt("x"), nt("y")), cat(nt("e"), nt("xy")), cat(nt("ex"), nt("y"))),
		alt(cat(nt("un"), nt("op"), nt("e")), cat(nt("unop"), nt("e")), cat(nt("u"), nt("nop"), nt("e"))),
	} {
		for _, after := range []bool{false, true} {
			full := &ref.RHS{K: "alt", Subs: append(append([]*ref.RHS{}, body.Subs...), str("z"))}
			dir := &ref.Decl{Kind: "directive", Assoc: "@left", Handles: []*ref.Handle{{Rule: rule("e", body)}}, Semi: true}
			m := &ref.SpecModel{Name: "g", NameSemi: true}
			rules := []*ref.Decl{rule("start", nt("e")), rule("e", full)}
			for _, n := range []string{"un", "op", "unop", "x", "y", "xy", "ex", "u", "nop"} {
				rules = append(rules, rule(n, str("t_"+n)))
			}
			if after {
				m.Decls = append(append(m.Decls, rules...), dir)
			} else {
				m.Decls = append(append(m.Decls, dir), rules...)
			}
			src := m.Text()
			rec.Case(src, true, "alternatives_with_concatenating_names")
			if err := checkModel(m, src); err != nil {
				rec.Fail(t, "model", input{Model: m, Spec: src}, "case %d: %v", i, err)
			}
		}
	}
}

// string literals with backslash escapes as handles of directives: the level holds the terminal the rules use
func TestEscapedLiteralsAsHandles(t *testing.T) {
	rec.Begin(t)
	rec.Rule(rule)
	if rec.Shard() != 0 {
		t.Skip("seed independent: shard 0 only")
	}
	str := func(s string) *ref.RHS { return &ref.RHS{K: "str", Name: s} }
	nt := func(s string) *ref.RHS { return &ref.RHS{K: "nt", Name: s} }
	cat := func(s ...*ref.RHS) *ref.RHS { return &ref.RHS{K: "cat", Subs: s} }
	for _, lits := range [][]string{{`\\`, `\"`}, {`a\"b`, `+`}, {`\\\\`, `\\`}, {`\"\"`, `\"`}, {`\+`, `\-`}} {
		m := &ref.SpecModel{Name: "g", NameSemi: true}
		body := &ref.RHS{K: "alt"}
		for i, l := range lits {
			m.Decls = append(m.Decls, &ref.Decl{Kind: "directive", Assoc: []string{"@left", "@right"}[i%2], Handles: []*ref.Handle{{Term: str(l)}}, Semi: i%2 == 0})
			body.Subs = append(body.Subs, cat(nt("start"), str(l), nt("start")))
		}
		body.Subs = append(body.Subs, str("n"))
		m.Decls = append(m.Decls, &ref.Decl{Kind: "rule", Name: "start", RHS: body, Semi: true})
		src := m.Text()
		rec.Case(src, true, "escaped_literals_as_handles")
		if err := checkModel(m, src); err != nil {
			rec.Fail(t, "model", input{Model: m, Spec: src}, "%v", err)
		}
		// the levels must be usable: every operator of the rule is declared, so the table is built
		var terr error
		if g := rec.Guard(func() {
			if sp, err := spec.Parse("t.ebnf", ref.Source(src)); err == nil {
				_, terr = sp.LALRParsingTable()
			}
		}); g == nil && terr != nil {
			rec.Fail(t, "model", input{Model: m, Spec: src}, "every operator of the rule is listed in a directive, but the table is refused: %v\nspecification:\n%s", terr, src)
		}
	}
}

func TestReplay(t *testing.T) {
	if !rec.IsReplay() {
		t.Skip("not in replay mode")
	}
	_, raw, _ := rec.Replay()
	var in input
	if err := json.Unmarshal(raw, &in); err != nil {
		t.Fatal(err)
	}
	if err := checkModel(in.Model, in.Spec); err != nil {
		rec.Fail(t, "model", in, "%v", err)
	}
}
