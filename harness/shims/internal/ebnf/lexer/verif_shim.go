//go:build verif

package lexer

import (
	"io"

	"github.com/moorara/algo/lexer"
)

// VerifAdvanceDFA exposes the coded transition table.
func VerifAdvanceDFA(state int, r rune) int { return advanceDFA(state, r) }

type verifInput struct{ lexeme string }

func (v *verifInput) Next() (rune, error)              { return 0, io.EOF }
func (v *verifInput) Retract()                         {}
func (v *verifInput) Lexeme() (string, lexer.Position) { return v.lexeme, lexer.Position{} }
func (v *verifInput) Skip() lexer.Position             { return lexer.Position{} }

// VerifEvalDFA evaluates a state of the scanner automaton as if the pending lexeme were the given text.
func VerifEvalDFA(state int, lexeme string) lexer.Token {
	l := &Lexer{in: &verifInput{lexeme: lexeme}}
	return l.evalDFA(state)
}
