//go:build verif

package parser

import (
	"github.com/moorara/algo/grammar"
	"github.com/moorara/algo/parser/lr"
)

// VerifGrammar exposes the package's own copy of the EBNF grammar, its precedence levels and productions.
func VerifGrammar() (*grammar.CFG, lr.PrecedenceLevels, []*grammar.Production) {
	return G, precedences, productions
}
