//go:build verif

package spec

import auto "github.com/moorara/algo/automata"

// VerifRegexToDFA exposes the token pipeline (Parse -> ToDFA -> Minimize -> EliminateDeadStates -> ReindexStates).
func VerifRegexToDFA(regex string) (*auto.DFA, error) { return regexToDFA(regex) }

// VerifStringToDFA exposes the automaton of a string definition.
func VerifStringToDFA(value string) *auto.DFA { return stringToDFA(value) }
