// Package c20 decides property C20: lexical and syntax errors are reported at the first offending token.
package c20

import (
	"encoding/json"
	"fmt"
	"os"
	"os/exec"
	"path/filepath"
	"regexp"
	"strings"
	"testing"
	"unicode/utf8"

	"pgregory.net/rapid"

	ebnf "github.com/gardenbed/emerge/internal/ebnf/parser"
	"github.com/gardenbed/emerge/internal/ebnf/parser/spec"
	"github.com/gardenbed/emerge/internal/vh/gen"
	"github.com/gardenbed/emerge/internal/vh/rec"
	"github.com/gardenbed/emerge/internal/vh/ref"
)

// ruleMore describes what was added to the exploration in the build phase.
const ruleMore = "; large specifications with one token deleted or a stray inserted; strays beyond U+00FF whose low byte is a character of the language; stray text may be glued to the previous token and may be a byte sequence that is not UTF-8"

func TestMain(m *testing.M) { rec.Main(m, "C20") }

const rule = "valid token sequences (printed models) with one insertion, deletion, replacement or truncation at a drawn position, and texts with a stray character or an unterminated string, pattern or comment at a drawn position, " +
	"under random layouts (leading blank lines and indentation included); oracle: an independent recursive-descent parser gives the first token after which no specification can continue, the reference scanner gives the first lexical error, the earlier one wins; " +
	"the diagnostic of Parser.Parse and of spec.Parse must name <file>:<line>:<col> of that token's first character; replacing everything after the offending token by other tokens must leave the message unchanged; " +
	"a specification that merely ends too early is rejected with a message that names no position; non-trivial = error neither at the first nor at the last token; distinct by text"

var scanner = ref.NewScanner()

type input struct {
	Text string `json:"text"`
	Raw  []byte `json:"raw,omitempty"` // the text when it is not UTF-8 (JSON strings cannot carry it)
	Tail string `json:"tail"`
}

func mkInput(text, tail string) input {
	in := input{Text: text, Tail: tail}
	if !utf8.ValidString(text) {
		in.Raw = []byte(text)
	}
	return in
}

var posRe = regexp.MustCompile(`t\.ebnf:(\d+):(\d+)`)

func parseErr(text string) (syntaxErr, specErr string, perr error) {
	perr = rec.Guard(func() {
		p, err := ebnf.New("t.ebnf", ref.Source(text))
		if err != nil {
			syntaxErr = "New: " + err.Error()
			return
		}
		if err := p.Parse(nil, nil); err != nil {
			syntaxErr = err.Error()
		}
		if _, err := spec.Parse("t.ebnf", ref.Source(text)); err != nil {
			specErr = err.Error()
		}
	})
	return
}

// expectation: where the first error is.
type expectation struct {
	kind      string // syntax | lexical | truncated | none
	line, col int
	endOff    int // offset just after the offending token / stray text
	tokIdx    int
	nToks     int
}

func expect(text string) expectation {
	toks, lexErr, _ := scanner.Scan(text)
	tree, errIdx := ref.ParseKinds(ref.Kinds(toks))
	if bad, _, _, ok := ref.FirstInvalidUTF8(text); ok {
		// a byte sequence that is not UTF-8 is reported where the reader stands; when it directly follows an
		// unfinished lexeme or the offending token itself, which of the two positions is named is not stated
		if tree == nil && errIdx < len(toks) && toks[errIdx].Off+len([]rune(toks[errIdx].Src)) == bad {
			return expectation{kind: "unstated", nToks: len(toks)}
		}
		if (tree != nil || errIdx >= len(toks)) && lexErr != nil && lexErr.Text != "" && lexErr.Off+len([]rune(lexErr.Text)) == bad {
			return expectation{kind: "unstated", nToks: len(toks)}
		}
	}
	switch {
	case tree == nil && errIdx < len(toks):
		t := toks[errIdx]
		return expectation{kind: "syntax", line: t.Line, col: t.Col, endOff: t.Off + len([]rune(t.Src)), tokIdx: errIdx, nToks: len(toks)}
	case lexErr != nil:
		return expectation{kind: "lexical", line: lexErr.Line, col: lexErr.Col, endOff: lexErr.Off + len([]rune(lexErr.Text)), tokIdx: len(toks), nToks: len(toks)}
	case tree == nil:
		return expectation{kind: "truncated", tokIdx: len(toks), nToks: len(toks)}
	}
	return expectation{kind: "none", nToks: len(toks)}
}

func checkText(text, tail string) (expectation, error) {
	e := expect(text)
	syn, sp, perr := parseErr(text)
	if perr != nil {
		return e, fmt.Errorf("%v\ntext:\n%s", perr, text)
	}
	switch e.kind {
	case "unstated":
		return e, nil
	case "none":
		if syn != "" {
			return e, fmt.Errorf("the text is a specification, but the parser rejects it: %s\ntext:\n%s", syn, text)
		}
		return e, nil
	case "truncated":
		for name, msg := range map[string]string{"Parser.Parse": syn, "spec.Parse": sp} {
			if msg == "" {
				return e, fmt.Errorf("the specification ends too early, but %s accepts it\ntext:\n%s", name, text)
			}
			if m := posRe.FindString(msg); m != "" {
				return e, fmt.Errorf("the specification merely ends too early, but the diagnostic of %s points at %s: %s\ntext:\n%s", name, m, msg, text)
			}
		}
		return e, nil
	}
	want := fmt.Sprintf("t.ebnf:%d:%d", e.line, e.col)
	for name, msg := range map[string]string{"Parser.Parse": syn, "spec.Parse": sp} {
		if msg == "" {
			return e, fmt.Errorf("%s accepts a text with a %s error at %s\ntext:\n%s", name, e.kind, want, text)
		}
		if !rec.MentionsPos(msg, "t.ebnf", e.line, e.col) {
			return e, fmt.Errorf("the %s error is at %s (first character of the first offending token), but the diagnostic of %s says: %s\ntext:\n%s", e.kind, want, name, msg, text)
		}
		for _, m := range posRe.FindAllString(msg, -1) {
			if m != want {
				return e, fmt.Errorf("the diagnostic of %s names the position %s besides %s: %s\ntext:\n%s", name, m, want, msg, text)
			}
		}
	}
	// nothing after the offending token influences the message
	if tail != "" {
		rs := []rune(text)
		if e.endOff <= len(rs) {
			text2 := string(rs[:e.endOff]) + tail
			if e2 := expect(text2); e2.kind == e.kind && e2.line == e.line && e2.col == e.col && e2.endOff == e.endOff {
				syn2, sp2, perr := parseErr(text2)
				if perr != nil {
					return e, fmt.Errorf("%v\ntext:\n%s", perr, text2)
				}
				if syn2 != syn || sp2 != sp {
					return e, fmt.Errorf("replacing the text after the offending token changes the diagnostic:\n  before: %s\n  after:  %s\ntext:\n%s\nreplaced tail:\n%s", syn, syn2, text, tail)
				}
			}
		}
	}
	return e, nil
}

var kindSrc = map[string][]string{
	"=": {"="}, ";": {";"}, "|": {"|"}, "(": {"("}, ")": {")"}, "[": {"["}, "]": {"]"}, "{": {"{"}, "}": {"}"}, "{{": {"{{"}, "}}": {"}}"}, "<": {"<"}, ">": {">"},
	"grammar": {"grammar"}, "@left": {"@left"}, "@right": {"@right"}, "@none": {"@none"},
	"IDENT": {"zz", "expr", "gram"}, "TOKEN": {"ZZ", "NUM_1"}, "STRING": {`"s"`, `"\""`}, "REGEX": {`/r+/`, `/a\/b/`}, "PREDEF": {"$ID", "$WS"},
}

func mkTok(t *rapid.T, kind string) ref.Tok {
	src := rapid.SampledFrom(kindSrc[kind]).Draw(t, "src")
	lex := src
	if kind == "STRING" || kind == "REGEX" {
		lex = src[1 : len(src)-1]
	}
	return ref.Tok{Kind: kind, Src: src, Lexeme: lex}
}

var strays = []string{"#", "@lef", "@lefty", "$", "$a", `"abc`, `""`, "'x'", "/abc", "%", "\\", "é", "\x01", "^", "9a", "/* open", "/*/", "~", "$1", "$_", "$9A", "$_ID", "\xff", "\xc3(", "\xfe\xfe", "\xe4\xb8", "\x00", "\x00x", "\u2400",
	// characters beyond U+00FF whose low byte is a character of the language (blank, ; = " / { a A 0 _)
	"\u0120", "\u013b", "\u013d", "\u0122", "\u012f", "\u017b", "\u0161", "\u0141", "\u0130", "\u015f", "\u2120", "\u213b", "\U0001003d", "\u010a", "\u0109"}

var tails = []string{"", ";", " \x00 ", " // c\n\x00",  " ; x = y ;", " ) ) ] }}", " @left \"a\" TK = /x/ start = ;", " # $ %", " /* open", "\n\n grammar g ; start = \"a\" ;\n"}

func TestErrorsAtFirstOffendingToken(t *testing.T) {
	rec.Rule(rule + ruleMore)
	rec.Assume("texts stay below one buffer half")
	opts := gen.SpecOpts{MaxRules: 3, Depth: 3, Literals: []string{"a", "b", `\"`}, Tokens: []string{"TK", "NUM"}, Directives: 2, RuleHandles: true, DupRules: true, EmptyRules: true}
	rec.Check(t, 12000, 200000, func(t *rapid.T) {
		m := gen.Spec(t, opts)
		toks := m.Tokens()
		mode := rapid.SampledFrom([]string{"insert", "delete", "replace", "truncate", "stray", "stray"}).Draw(t, "mode")
		pos := rapid.IntRange(0, len(toks)).Draw(t, "pos")
		strayAt := -1
		stray := ""
		switch mode {
		case "insert":
			k := rapid.SampledFrom(ref.TokenKinds).Draw(t, "kind")
			toks = append(toks[:pos], append([]ref.Tok{mkTok(t, k)}, toks[pos:]...)...)
		case "delete":
			if pos == len(toks) {
				pos--
			}
			toks = append(toks[:pos], toks[pos+1:]...)
		case "replace":
			if pos == len(toks) {
				pos--
			}
			toks = append(append(append([]ref.Tok{}, toks[:pos]...), mkTok(t, rapid.SampledFrom(ref.TokenKinds).Draw(t, "kind"))), toks[pos+1:]...)
		case "truncate":
			toks = toks[:pos]
		default:
			strayAt = pos
			stray = rapid.SampledFrom(strays).Draw(t, "stray")
		}
		seps := gen.Seps(t, toks)
		if rapid.IntRange(0, 3).Draw(t, "leadingLayout") == 0 {
			seps[0] = rapid.SampledFrom([]string{"\n\n", "  ", "\n\t ", "// c\n\n", "/* c */ "}).Draw(t, "lead") + seps[0]
		}
		if strayAt >= 0 {
			glue := " "
			if rapid.IntRange(0, 2).Draw(t, "glued") == 0 {
				glue = ""
			}
			seps[strayAt] = seps[strayAt] + glue + stray + rapid.SampledFrom([]string{" ", "\n", "\t"}).Draw(t, "afterStray")
		}
		longLine := false
		if rapid.IntRange(0, 7).Draw(t, "longLine") == 0 && len(seps) > 1 {
			// one physical line of more than 4096 bytes (a comment, or blanks) somewhere in the layout
			j := rapid.IntRange(0, len(seps)-2).Draw(t, "longAt")
			n := rapid.SampledFrom([]int{4090, 4200, 5000, 6100}).Draw(t, "longBytes")
			kind := rapid.IntRange(0, 2).Draw(t, "longKind")
			mk := func(n int) string {
				switch kind {
				case 0:
					return "// " + strings.Repeat("x", n) + "\n"
				case 1:
					return "/* " + strings.Repeat("y", n) + " */"
				}
				return strings.Repeat(" ", n)
			}
			orig := seps[j]
			for extra := 0; extra < 8; extra++ {
				seps[j] = orig + mk(n+extra)
				probe, _ := ref.Render(toks, seps)
				hazard := false
				for _, b := range scanner.Boundaries(probe + "\n") {
					hazard = hazard || b%4096 == 4095
				}
				if !hazard {
					// outside of the class of the listed dependency finding of C13 (a lexeme that ends at the last byte of a buffer half)
					longLine = true
					break
				}
			}
			if !longLine {
				seps[j] = orig
			}
		}
		text, _ := ref.Render(toks, seps)
		tail := rapid.SampledFrom(tails).Draw(t, "tail")
		e, err := checkText(text, tail)
		cls := []string{"mode_" + mode, "error_" + e.kind}
		if longLine {
			cls = append(cls, "line_longer_than_4096_bytes")
		}
		nt := (e.kind == "syntax" || e.kind == "lexical") && e.tokIdx > 0 && e.tokIdx < e.nToks-1
		if strings.HasPrefix(text, "\n") || strings.HasPrefix(text, " ") || strings.HasPrefix(text, "\t") || strings.HasPrefix(text, "/") {
			cls = append(cls, "leading_layout")
		}
		if _, _, _, bad := ref.FirstInvalidUTF8(text); bad {
			cls = append(cls, "invalid_utf8")
		}
		rec.Case(text, nt, cls...)
		if nt {
			rec.Sample("error_"+e.kind+"_"+mode, text)
		}
		if err != nil {
			rec.Fail(t, "text", mkInput(text, tail), "%v", err)
		}
	})
}

// every position of fixed specifications: single-token deletion and truncation at every token index
func TestEveryPositionOfFixedSpecs(t *testing.T) {
	rec.Begin(t)
	rec.Rule(rule + ruleMore)
	if rec.Shard() != 0 {
		t.Skip("seed independent: shard 0 only")
	}
	specs := []string{
		"grammar calc;\nNUM = /[0-9]+/\n@left \"*\" \"/\"\n@left <e = e e> ;\nstart = e;\ne = e (\"+\" | \"-\") e | { \"(\" e \")\" } | [ NUM ] | {{ \"x\" }} | ;\n",
		"\n\n  grammar g\n\n  ID = $ID ; STR = \"s\"\n  start = ID STR | ;\n",
	}
	n := 0
	for _, s := range specs {
		toks, _, _ := scanner.Scan(s)
		for i := 0; i <= len(toks); i++ {
			// truncation after i tokens
			cut := len([]rune(s))
			if i < len(toks) {
				cut = toks[i].Off
			}
			variants := []string{string([]rune(s)[:cut])}
			if i < len(toks) {
				// deletion of token i
				rs := []rune(s)
				variants = append(variants, string(rs[:toks[i].Off])+" "+string(rs[toks[i].Off+len([]rune(toks[i].Src)):]))
				// a stray character in front of token i
				variants = append(variants, string(rs[:toks[i].Off])+"# "+string(rs[toks[i].Off:]))
			}
			for _, v := range variants {
				n++
				e, err := checkText(v, " ; x = ;")
				rec.Case(v, e.kind != "none" && e.tokIdx > 0, "fixed_every_position", "error_"+e.kind)
				if err != nil {
					rec.Fail(t, "text", mkInput(v, " ; x = ;"), "%v", err)
				}
			}
		}
	}
	rec.Count("fixed_position_variants", n)
}

// large specifications (gen.BigModels): one token deleted, or a stray character inserted, near the beginning, in the
// middle and near the end of hundreds of alternatives, nested groups, repetitions, rules, declarations and directives
func TestLargeSpecifications(t *testing.T) {
	rec.Begin(t)
	rec.Rule(rule + ruleMore)
	if rec.Shard() != 0 {
		t.Skip("seed independent: shard 0 only")
	}
	n := 0
	for _, m := range gen.BigModels() {
		text, toks := gen.BigText(m)
		rs := []rune(text)
		for _, i := range []int{4, len(toks) / 3, len(toks) / 2, len(toks) - 4} {
			end := toks[i].Off + len([]rune(toks[i].Src))
			variants := []string{
				string(rs[:toks[i].Off]) + " " + string(rs[end:]),   // token i deleted
				string(rs[:toks[i].Off]) + "# " + string(rs[toks[i].Off:]), // a stray character in front of token i
				string(rs[:end]),                                     // truncated after token i
			}
			for _, v := range variants {
				hazard := false
				for _, b := range scanner.Boundaries(v + "\n") {
					hazard = hazard || b%4096 == 4095
				}
				if hazard {
					continue // the class of the listed dependency finding of C13
				}
				n++
				e, err := checkText(v, " ; x = ;")
				rec.Case(v, e.kind != "none", "large_specification", "error_"+e.kind)
				if err != nil {
					rec.Fail(t, "text", mkInput(v, " ; x = ;"), "large specification %s: %v", m.Name, err)
				}
			}
		}
	}
	rec.Count("large_specification_variants", n)
}

// the command-line tool reports the same position on its error stream, with the name of the input file
func TestCLIDiagnostics(t *testing.T) {
	rec.Begin(t)
	rec.Rule(rule + ruleMore)
	if rec.Shard() != 0 {
		t.Skip("shard 0 only")
	}
	bin := os.Getenv("VERIF_EMERGE_BIN")
	if _, err := os.Stat(bin); err != nil {
		t.Skip("emerge binary not built")
	}
	texts := []string{
		"grammar g;\nstart = = ;\n",
		"\n\n   grammar g;\n\tstart = \"a\" # ;\n",
		"grammar g;\nstart = \"a\" ;\nx = ( \"b\" ;\n",
		"grammar g; start = \"a\"",
		"// lead\ngrammar g\nAB = \nstart = AB;\n",
		"grammar g;\nstart = \"a\" ;\n/* open",
		"grammar g;\n@left ; start = ;\n",
		"grammar g;\nstart = \"abc ;\n",
	}
	for i, text := range texts {
		e := expect(text)
		dir := t.TempDir()
		// file names with characters that mean something to a formatter or a shell are names like any other
		name := []string{"spec%d.ebnf", "my%%20spec.grammar", "100%%.ebnf", "%%s%%v.ebnf", "a b.ebnf", "spec%d(1).ebnf", "%%!s(MISSING).ebnf"}[i%7]
		if strings.Contains(name, "%d") {
			name = fmt.Sprintf(name, i)
		} else {
			name = strings.ReplaceAll(name, "%%", "%")
		}
		file := filepath.Join(dir, name)
		if err := os.WriteFile(file, []byte(text), 0o644); err != nil {
			t.Fatal(err)
		}
		cmd := exec.Command(bin, "-out", dir, file)
		cmd.Dir = dir
		out, err := cmd.CombinedOutput()
		code := 0
		if ee, ok := err.(*exec.ExitError); ok {
			code = ee.ExitCode()
		} else if err != nil {
			t.Fatalf("cannot run emerge: %v", err)
		}
		rec.Case("cli:"+text, true, "cli", "error_"+e.kind)
		msg := string(out)
		if code == 0 {
			rec.Fail(t, "text", mkInput(text, ""), "emerge exits with status 0 for a text with a %s error\ntext:\n%s\noutput:\n%s", e.kind, text, msg)
		}
		got := regexp.MustCompile(regexp.QuoteMeta(name) + `:(\d+):(\d+)`).FindAllString(msg, -1)
		switch e.kind {
		case "truncated":
			if len(got) > 0 {
				rec.Fail(t, "text", mkInput(text, ""), "the specification merely ends too early, but emerge points at %v\ntext:\n%s\noutput:\n%s", got, text, msg)
			}
		default:
			want := fmt.Sprintf("%s:%d:%d", name, e.line, e.col)
			if len(got) == 0 || got[0] != want {
				rec.Fail(t, "text", mkInput(text, ""), "the %s error is at %s, emerge reports %v\ntext:\n%s\noutput:\n%s", e.kind, want, got, text, msg)
			}
		}
	}
}

func TestReplay(t *testing.T) {
	if !rec.IsReplay() {
		t.Skip("not in replay mode")
	}
	_, raw, _ := rec.Replay()
	var in input
	if err := json.Unmarshal(raw, &in); err != nil {
		t.Fatal(err)
	}
	if in.Raw != nil {
		in.Text = string(in.Raw)
	}
	if _, err := checkText(in.Text, in.Tail); err != nil {
		rec.Fail(t, "text", in, "%v", err)
	}
}
