// Package c02 decides property C02: token patterns compile to automata that accept exactly the pattern's language.
package c02

import (
	"crypto/sha256"
	"encoding/json"
	"fmt"
	"sync"
	"testing"

	auto "github.com/moorara/algo/automata"
	"pgregory.net/rapid"

	ebnfparser "github.com/gardenbed/emerge/internal/ebnf/parser"
	"github.com/gardenbed/emerge/internal/ebnf/parser/spec"
	"github.com/gardenbed/emerge/internal/regex/parser/nfa"
	"github.com/gardenbed/emerge/internal/vh/gen"
	"github.com/gardenbed/emerge/internal/vh/rec"
	"github.com/gardenbed/emerge/internal/vh/ref"
)

func TestMain(m *testing.M) { rec.Main(m, "C02") }

const (
	rule = "patterns are printed from a pattern tree (exhaustive trees up to a node bound over {a,b,.}, every class/escape/bracket form individually, " +
		"random trees of depth<=4, the seven predefined patterns); each is compared by full product exploration (reference automaton x raw subset-construction DFA, " +
		"and x the minimised/pruned/re-indexed pipeline DFA); non-trivial = >=2 operators or a class/negation/bracket/range quantifier; distinct by printed text"
	nulKey = "nul-epsilon"
)

// nulTolerated is decided once by the probe: the listed NUL/ε finding is present (then patterns whose character
// sets contain code point 0 are compared with the bug-compatible reference, everything else strictly).
var nulOnce sync.Once
var nulFlag bool

func nulTolerated() bool {
	nulOnce.Do(func() {
		n, err := nfa.Parse(".")
		if err != nil {
			return
		}
		present := n.ToDFA().Accept(nil) // '.' must not match the empty string
		nulFlag = rec.Known(nulKey, present)
	})
	return nulFlag
}

var reindexOnce sync.Once
var reindexFlag bool

// reindexKnown probes the listed dependency finding: the token pipeline panics for /a{64}/.
func reindexKnown() bool {
	reindexOnce.Do(func() {
		present := rec.Guard(func() { _, _ = spec.VerifRegexToDFA("a{64}") }) != nil
		reindexFlag = rec.Known("reindex-queue-panic", present)
	})
	return reindexFlag
}

type input struct {
	Pattern string   `json:"pattern"`
	Tree    *ref.Pat `json:"tree"`
}

func nontrivial(p *ref.Pat) bool {
	ops, special := 0, false
	p.Walk(func(q *ref.Pat) {
		switch q.K {
		case "cat", "alt", "q":
			ops++
		case "any", "cls", "posix", "br":
			special = true
		}
		if q.K == "q" && len(q.QForm) > 1 {
			special = true
		}
	})
	return ops >= 2 || special
}

// checkPattern is the oracle for one pattern tree; it returns a description of the first disagreement.
func checkPattern(p *ref.Pat) error {
	s := p.String()
	var n *auto.NFA
	var d1, d2 *auto.DFA
	var err, err2 error
	if perr := rec.Guard(func() {
		n, err = nfa.Parse(s)
		if err == nil {
			d1 = n.ToDFA()
		}
	}); perr != nil {
		return fmt.Errorf("pattern %q: %v", s, perr)
	}
	if perr := rec.Guard(func() { d2, err2 = spec.VerifRegexToDFA(s) }); perr != nil {
		// listed dependency finding: ReindexStates panics for automata of 65 or more states
		if d1 != nil && len(d1.Minimize().EliminateDeadStates().States()) >= 65 && reindexKnown() {
			rec.Count("excluded_known_reindex_panic", 1)
			d2, err2 = d1, nil
		} else {
			return fmt.Errorf("pattern %q: token pipeline: %v", s, perr)
		}
	}
	if err != nil {
		return fmt.Errorf("nfa.Parse(%q) rejects a pattern written with documented constructs: %v", s, err)
	}
	if err2 != nil {
		return fmt.Errorf("token pipeline rejects %q: %v", s, err2)
	}
	strict := ref.NewRef(p, false)
	r := strict
	if strict.NulHit && nulTolerated() {
		r = ref.NewRef(p, true)
		rec.Class("nul_tolerant_oracle", 1)
	}
	if w, bad := ref.Diff(r, d1); bad {
		return fmt.Errorf("pattern %q: subset-construction DFA and documented meaning differ on %q (reference accepts: %v)", s, w, r.Matches([]rune(w)))
	}
	if w, bad := ref.Diff(r, d2); bad {
		return fmt.Errorf("pattern %q: minimised/pruned pipeline DFA and documented meaning differ on %q (reference accepts: %v)", s, w, r.Matches([]rune(w)))
	}
	// the documented grammar lets a pattern start with the anchor '^' (regex = [ "^" ] expr); a token is matched from
	// its first character anyway, so the anchored spelling denotes the same language (short patterns, and a
	// deterministic quarter of the longer ones)
	if h := sha256.Sum256([]byte(s)); len(s) <= 12 || h[0]%4 == 0 {
		rec.Class("leading_anchor", 1)
		var d3 *auto.DFA
		var err3 error
		if perr := rec.Guard(func() { d3, err3 = spec.VerifRegexToDFA("^" + s) }); perr != nil {
			if len(d2.States()) >= 65 && reindexKnown() {
				return nil
			}
			return fmt.Errorf("pattern %q: token pipeline: %v", "^"+s, perr)
		}
		if err3 != nil {
			return fmt.Errorf("token pipeline rejects %q (the same pattern with the leading anchor): %v", "^"+s, err3)
		}
		if w, bad := ref.Diff(r, d3); bad {
			return fmt.Errorf("pattern %q: with the leading anchor the pipeline DFA differs from the documented meaning on %q (reference accepts: %v)", "^"+s, w, r.Matches([]rune(w)))
		}
	}
	return nil
}

func classify(p *ref.Pat) []string {
	var cls []string
	seen := map[string]bool{}
	add := func(c string) {
		if !seen[c] {
			seen[c] = true
			cls = append(cls, c)
		}
	}
	p.Walk(func(q *ref.Pat) {
		switch q.K {
		case "q":
			if len(q.QForm) > 1 {
				add("range_quantifier")
			} else {
				add("simple_quantifier")
			}
			if q.Lazy {
				add("lazy")
			}
		case "br":
			if q.Neg {
				add("negated_bracket")
			} else {
				add("bracket")
			}
		case "any", "cls", "posix", "alt", "cat", "grp":
			add(q.K)
		case "lit":
			if q.R > 0x7F {
				add("non_ascii")
			}
		}
	})
	return cls
}

func run(t interface {
	Helper()
	Fatalf(string, ...any)
}, p *ref.Pat, label string) {
	s := p.String()
	rec.Case(s, nontrivial(p), classify(p)...)
	rec.Sample(label, s)
	if err := checkPattern(p); err != nil {
		rec.Fail(t, "pattern", input{Pattern: s, Tree: p}, "%v", err)
	}
}

func TestExhaustiveSmallTrees(t *testing.T) {
	rec.Begin(t)
	rec.Rule(rule)
	atoms := []*ref.Pat{{K: "lit", R: 'a'}, {K: "lit", R: 'b'}}
	maxN := rec.Pick(3, 4)
	total := 0
	for n := 1; n <= maxN; n++ {
		ps := gen.EnumPatterns(n, atoms)
		for i, p := range ps {
			if i%rec.NShards() != rec.Shard() {
				continue
			}
			run(t, p, fmt.Sprintf("enum%d", n))
			total++
		}
	}
	// a sample of size maxN+1 trees mixing in '.' (negation-type set), cut by shard
	ps := gen.EnumPatterns(maxN+1, []*ref.Pat{{K: "lit", R: 'a'}, {K: "any"}})
	step := rec.Pick(97, 11)
	for i := rec.Shard(); i < len(ps); i += step * rec.NShards() {
		run(t, ps[i], "enumdot")
		total++
	}
	rec.Count("exhaustive_tree_patterns", total)
	rec.Count("exhaustive_tree_max_nodes", maxN)
}

func TestEveryConstructIndividually(t *testing.T) {
	rec.Begin(t)
	rec.Rule(rule)
	if rec.Shard() != 0 {
		t.Skip("seed independent: shard 0 only")
	}
	for _, p := range gen.SingleConstructs() {
		run(t, p, "single:"+p.K)
		// and under each quantifier form, which must repeat the whole set
		for f := 0; f <= 5; f++ {
			q := &ref.Pat{K: "q", Subs: []*ref.Pat{p}}
			if p.K == "cat" || p.K == "alt" || p.K == "q" {
				q.Subs[0] = &ref.Pat{K: "grp", Subs: []*ref.Pat{p}}
			}
			gen.Quant(q, f, 1, 1)
			if p.K == "lit" && p.R < 0x7F && p.R != 'a' && f > 0 {
				continue // one quantifier form is enough for the 127 plain literals
			}
			run(t, q, "")
		}
	}
}

// Unicode property classes and their negations, alone and inside bracket groups.  The reference model has no
// semantics for \p{..} (the documentation lists the classes and also says they are not included; most tables are
// empty), so this is decided relationally and on single ASCII characters only: \P{X} matches c iff \p{X} does not,
// and a class means the same inside a bracket group as outside: [\p{X}_], [\P{X}], [^\p{X}], [^\P{X}].
func TestUnicodeClassesOnCharacters(t *testing.T) {
	rec.Begin(t)
	rec.Rule(rule)
	if rec.Shard() != 0 {
		t.Skip("seed independent: shard 0 only")
	}
	names := []string{"Letter", "L", "Lu", "Ll", "Lt", "Lm", "Lo", "Mark", "M", "Mn", "Mc", "Me", "Number", "N", "Nd", "Nl", "No", "Punctuation", "P", "Pc", "Pd", "Ps", "Pe", "Pi", "Pf", "Po",
		"Symbol", "S", "Sm", "Sc", "Sk", "So", "Separator", "Z", "Zs", "Zl", "Zp", "Latin", "Greek", "Cyrillic", "Han", "Persian", "Math", "Emoji"}
	accepts := func(d *auto.DFA, c rune) bool { return d.Accept(auto.String{auto.Symbol(c)}) }
	for _, name := range names {
		build := func(p string) *auto.DFA {
			var d *auto.DFA
			var err error
			if perr := rec.Guard(func() { d, err = spec.VerifRegexToDFA(p) }); perr != nil || err != nil {
				rec.Fail(t, "class", map[string]any{"pattern": p}, "pattern %q: %v %v", p, perr, err)
				return nil
			}
			return d
		}
		pos, neg := build(`\p{`+name+`}`), build(`\P{`+name+`}`)
		inPos, inNeg, outPos, outNeg := build(`[\p{`+name+`}_]`), build(`[\P{`+name+`}]`), build(`[^\p{`+name+`}]`), build(`[^\P{`+name+`}]`)
		if pos == nil || neg == nil || inPos == nil || inNeg == nil || outPos == nil || outNeg == nil {
			continue
		}
		for c := rune(1); c < 0x80; c++ {
			in := accepts(pos, c)
			rec.Case(fmt.Sprintf("class:%s:%x", name, c), true, "unicode_class_on_character")
			check := func(form string, got, expect bool) {
				if got != expect {
					rec.Fail(t, "class", map[string]any{"pattern": form, "char": int(c)}, "pattern %s on the character U+%04X: matches=%v, expected %v (\\p{%s} matches it: %v)", form, c, got, expect, name, in)
				}
			}
			check(`[\p{`+name+`}_]`, accepts(inPos, c), in || c == '_')
			check(`\P{`+name+`}`, accepts(neg, c), !in)
			check(`[\P{`+name+`}]`, accepts(inNeg, c), !in)
			check(`[^\p{`+name+`}]`, accepts(outPos, c), !in)
			check(`[^\P{`+name+`}]`, accepts(outNeg, c), in)
		}
	}
}

func TestPredefinedPatterns(t *testing.T) {
	rec.Begin(t)
	rec.Rule(rule)
	if rec.Shard() != 0 {
		t.Skip("seed independent: shard 0 only")
	}
	want := gen.PredefPats()
	if len(ebnfparser.Predefs) != len(want) {
		rec.Fail(t, "predef-table", map[string]any{"have": len(ebnfparser.Predefs)}, "the table of predefined patterns has %d entries, the documentation lists %d names", len(ebnfparser.Predefs), len(want))
	}
	for name, p := range want {
		text, ok := ebnfparser.Predefs[name]
		rec.Case("predef:"+name, true, "predef")
		rec.Sample("predef", name+" = "+text)
		if !ok {
			rec.Fail(t, "predef", map[string]string{"name": name}, "predefined pattern %s is missing", name)
		}
		d, err := spec.VerifRegexToDFA(text)
		if err != nil {
			rec.Fail(t, "predef", map[string]string{"name": name, "text": text}, "predefined pattern %s = %q does not compile: %v", name, text, err)
		}
		if w, bad := ref.Diff(ref.NewRef(p, false), d); bad {
			rec.Fail(t, "predef", map[string]string{"name": name, "text": text}, "predefined pattern %s = %q differs from its documented meaning on %q", name, text, w)
		}
	}
}

func TestRandomPatterns(t *testing.T) {
	rec.Rule(rule)
	rec.Assume("reference semantics excludes mid-pattern anchors and \\p{..} classes (documentation contradicts itself); lazy quantifiers denote the same language as greedy ones")
	if nulTolerated() {
		rec.Assume("listed finding nul-epsilon: for patterns with a character set containing code point 0 that set may also match the empty string; nothing else is tolerated")
	}
	if reindexKnown() {
		rec.Assume("listed finding reindex-queue-panic (dependency): for patterns whose minimised automaton has 65 or more states the pipeline's ReindexStates step may panic; such a panic is not reported again (counted as excluded_known_reindex_panic), the automaton before re-indexing is still compared")
	}
	rec.Check(t, 2500, 120000, func(t *rapid.T) {
		depth := rapid.IntRange(0, 4).Draw(t, "depth")
		p := gen.Pattern(t, depth, false)
		run(t, p, fmt.Sprintf("random-depth%d", depth))
	})
}

func TestReplay(t *testing.T) {
	kind, raw, _ := rec.Replay()
	if !rec.IsReplay() {
		t.Skip("not in replay mode")
	}
	switch kind {
	case "pattern":
		var in input
		if err := json.Unmarshal(raw, &in); err != nil {
			t.Fatal(err)
		}
		if err := checkPattern(in.Tree); err != nil {
			rec.Fail(t, kind, in, "%v", err)
		}
	default:
		t.Skipf("replay kind %q is re-checked by the regular run", kind)
	}
}
