// Package c16 decides property C16: success iff the package is fully written; flags honoured; existing files untouched.
package c16

import (
	"sync"
	"bytes"
	"crypto/sha256"
	"encoding/json"
	"fmt"
	"go/parser"
	"go/token"
	"go/types"
	"os"
	"os/exec"
	"path/filepath"
	"sort"
	"strings"
	"testing"
	"unicode"

	"github.com/gardenbed/charm/ui"
	"pgregory.net/rapid"

	"github.com/gardenbed/emerge/internal/ebnf/parser/spec"
	"github.com/gardenbed/emerge/internal/generate/golang"
	"github.com/gardenbed/emerge/internal/vh/rec"
)

func TestMain(m *testing.M) { rec.Main(m, "C16") }

// ruleMore describes what was added to the exploration in the build phase.
const ruleMore = "; relative paths (the specification in a sub-directory, -out=gen relative to the working directory, a decoy directory next to the specification); a token class with 20992 symbols; write faults: prlimit --fsize with an absolute limit or a limit k bytes below the size of the i-th largest file of the package"

const rule = "configurations: a subset of the flags (-out, -name in both spellings, -debug, -verbose, -help, -version, none) x input class (valid, syntax error, semantic error, invalid pattern, token conflict, LALR conflict, missing file, directory) " +
	"x pre-existing state of the output location (missing, a file, an empty directory, <name> present as directory / file / symlink to a directory / dangling symlink, target files already present, unrelated files) x name class " +
	"(valid identifier, Unicode letters, keyword, predeclared, blank identifier, digit first, dash, path-like, empty => from the grammar); oracle from a recursive snapshot (path, type, mode, size, SHA-256, link target) before and after: " +
	"exit 0 iff success is announced iff the six files exist under <out>/<name>, parse as Go with the package clause <name> and equal the in-process rendering; every pre-existing entry is unchanged; an unusable name or an unusable output location creates nothing; " +
	"-help and -version create nothing and exit 0; non-trivial = non-empty pre-state or invalid input; distinct by configuration"

var sixFiles = []string{"errors.go", "input.go", "lexer.go", "parser.go", "stack.go", "types.go"}

var inputs = map[string]string{
	"valid":     "grammar calc;\nNUM = /[0-9]+/\n@left \"*\" \"/\"\n@left \"+\" \"-\"\nstart = e;\ne = e \"+\" e | e \"-\" e | e \"*\" e | e \"/\" e | \"(\" e \")\" | NUM;\n",
	"valid2":    "grammar lists\nID = $ID\nstart = { ID [ \",\" ] } ;",
	"syntax":    "grammar calc;\nstart = = ;\n",
	"lexical":   "grammar calc;\nstart = # ;\n",
	"semantic":  "grammar calc;\nstart = UNDEF;\n",
	"pattern":   "grammar calc;\nAB = /a(/\nstart = AB;\n",
	"tconflict": "grammar calc;\nAA = /[a-z]+/\nBB = /[a-z][a-z]*/\nstart = AA BB;\n",
	"lalr":      "grammar calc;\nstart = start \"+\" start | \"i\";\n",
	"keyword":   "grammar func;\nstart = \"a\";\n",
	"predeclared": "grammar string;\nstart = \"a\";\n", // the grammar's own name is predeclared in Go; -name replaces it
	// exactly 256 and 512 problems of one kind (an exit status is one byte)
	"many256": manyProblems(256),
	"many512": manyProblems(512),
	"many255": manyProblems(255),
	"valid3":    bigSpec(),
	"valid4":    "grammar empty;\nstart = ;\nx = start | ;\n", // an accepted specification without any terminal
	// a token class with thousands of symbols: very long lines in the emitted transition function
	"valid5": "grammar wide;\nHAN = /[\\x4E00-\\x9FFF]+/\nstart = { HAN | \"x\" };\n",
}

// manyProblems is a specification with n undefined non-terminals.
func manyProblems(n int) string {
	var b strings.Builder
	b.WriteString("grammar calc;\nstart = \"x\"")
	for i := 0; i < n; i++ {
		fmt.Fprintf(&b, " | undef_%d", i)
	}
	b.WriteString(";\n")
	return b.String()
}

// bigSpec is a specification with many keywords: its lexer.go is the largest file of the package.
func bigSpec() string {
	var b strings.Builder
	b.WriteString("grammar big;\nID = /[a-z][a-z0-9_]*/\nNUM = /[0-9]+(\\.[0-9]+)?/\nSTR = $STRING\n")
	words := []string{"begin", "end", "procedure", "function", "while", "repeat", "until", "record", "array", "const", "program", "downto", "otherwise", "implementation", "interface", "inherited", "constructor", "destructor", "packed", "forward"}
	b.WriteString("start = { stmt \";\" } ;\nstmt = ID \":=\" expr")
	for _, w := range words {
		fmt.Fprintf(&b, " | \"%s\" expr", w)
	}
	b.WriteString(" ;\nexpr = ID | NUM | STR | \"(\" expr \")\" ;\n")
	return b.String()
}

var goKeywords = map[string]bool{"break": true, "default": true, "func": true, "interface": true, "select": true, "case": true, "defer": true, "go": true, "map": true, "struct": true, "chan": true, "else": true, "goto": true, "package": true,
	"switch": true, "const": true, "fallthrough": true, "if": true, "range": true, "type": true, "continue": true, "for": true, "import": true, "return": true, "var": true}

var predeclared = map[string]bool{"string": true, "int": true, "nil": true, "len": true, "true": true, "error": true, "any": true, "new": true, "complex": true}

// nameClass: "usable" (must be accepted), "unusable" (must be rejected, nothing created), "either".
func nameClass(n string) string {
	if n == "" {
		return "usable" // taken from the grammar
	}
	if goKeywords[n] || token.IsKeyword(n) || n == "_" {
		return "unusable"
	}
	for i, r := range n {
		if !(r == '_' || unicode.IsLetter(r) || (i > 0 && unicode.IsDigit(r))) {
			return "unusable"
		}
	}
	if predeclared[n] || types.Universe.Lookup(n) != nil {
		return "either"
	}
	return "usable"
}

type entry struct {
	Type   string
	Mode   os.FileMode
	Size   int64
	Hash   string
	Target string
}

func snapshot(root string) (map[string]entry, error) {
	out := map[string]entry{}
	err := filepath.Walk(root, func(p string, info os.FileInfo, err error) error {
		if err != nil {
			return err
		}
		rel, _ := filepath.Rel(root, p)
		e := entry{Mode: info.Mode()}
		switch {
		case info.Mode()&os.ModeSymlink != 0:
			e.Type = "symlink"
			e.Target, _ = os.Readlink(p)
		case info.IsDir():
			e.Type = "dir"
		default:
			e.Type = "file"
			e.Size = info.Size()
			data, rerr := os.ReadFile(p)
			if rerr != nil {
				return rerr
			}
			e.Hash = fmt.Sprintf("%x", sha256.Sum256(data))
		}
		out[rel] = e
		return nil
	})
	return out, err
}

// Config is one generated configuration.
type Config struct {
	Input    string   `json:"input"`     // key of inputs, or "missing" / "directory"
	OutFlag  string   `json:"out_flag"`  // "", "=", " " (how -out is passed)
	OutState string   `json:"out_state"` // dir | missing | file
	Pre      string   `json:"pre"`       // none | dir | dirwithfiles | file | symlinkdir | dangling | unrelated
	NameFlag string   `json:"name_flag"` // "", "=", " "
	Name     string   `json:"name"`
	Extra    []string `json:"extra"` // -debug -verbose -help -version
	Fsize    int      `json:"fsize"` // > 0: the run is subject to a file-size limit (write fault injection, prlimit --fsize)
	// FsizeDelta > 0: the limit is FsizeDelta bytes below the size of the FsizeFile-th largest file of the package (so that the
	// fault hits the last part of that file); resolved against the in-process rendering
	FsizeFile  int `json:"fsize_file"`
	FsizeDelta int `json:"fsize_delta"`
	// Rel: the specification lies in a sub-directory of the working directory and is named by a relative path; -out (if
	// given) is the relative path "gen". Relative paths are relative to the working directory, as for every tool.
	Rel bool `json:"rel"`
	// Tilde (with Rel): -out names the directory "~gen" of the working directory; $HOME holds a decoy directory "gen"
	Tilde bool `json:"tilde"`
}

// renderRef renders the package of a specification in process and returns the directory that holds it.
func renderRef(src, name string) (string, error) {
	ref, err := os.MkdirTemp("", "c16ref")
	if err != nil {
		return "", err
	}
	sp, perr := spec.Parse("in.ebnf", strings.NewReader(src))
	if perr != nil {
		os.RemoveAll(ref)
		return "", fmt.Errorf("parse: %v", perr)
	}
	sp.Name = name
	if gerr := golang.Generate(ui.NewNop(), &golang.Params{Path: ref, Spec: sp}); gerr != nil {
		os.RemoveAll(ref)
		return "", gerr
	}
	return ref, nil
}

func (c Config) String() string { b, _ := json.Marshal(c); return string(b) }

func checkConfig(c Config) (summary string, err error) {
	sb, err := os.MkdirTemp("", "c16")
	if err != nil {
		return "", err
	}
	defer func() {
		_ = filepath.Walk(sb, func(p string, info os.FileInfo, err error) error {
			if err == nil && info.IsDir() {
				_ = os.Chmod(p, 0o755)
			}
			return nil
		})
		os.RemoveAll(sb)
	}()
	work := filepath.Join(sb, "work")
	_ = os.MkdirAll(work, 0o755)
	// input
	inPath := filepath.Join(work, "in.ebnf")
	src, validInput := inputs[c.Input]
	switch c.Input {
	case "missing":
		inPath = filepath.Join(work, "nothere.ebnf")
	case "directory":
		inPath = filepath.Join(work, "indir")
		_ = os.Mkdir(inPath, 0o755)
	default:
		_ = os.WriteFile(inPath, []byte(src), 0o644)
	}
	argIn := inPath
	if c.Rel {
		_ = os.MkdirAll(filepath.Join(work, "specs", "gen"), 0o755) // a decoy: <directory of the specification>/gen
		rel := filepath.Join("specs", filepath.Base(inPath))
		switch c.Input {
		case "missing":
		case "directory":
			_ = os.Remove(inPath)
			_ = os.Mkdir(filepath.Join(work, rel), 0o755)
		default:
			_ = os.Rename(inPath, filepath.Join(work, rel))
		}
		inPath, argIn = filepath.Join(work, rel), rel
	}
	validInput = validInput && (c.Input == "valid" || c.Input == "valid2" || c.Input == "valid3" || c.Input == "valid4" || c.Input == "valid5" || c.Input == "keyword" || c.Input == "predeclared")
	// output location
	outDir := work
	var args []string
	if c.OutFlag != "" {
		outDir = filepath.Join(sb, "outroot")
		argOut := outDir
		if c.Rel && c.OutState != "symlink" {
			outDir, argOut = filepath.Join(work, "gen"), "gen"
			if c.Tilde {
				// a directory whose name starts with a tilde is a directory like any other (only a shell expands ~)
				outDir, argOut = filepath.Join(work, "~gen"), "~gen"
			}
		}
		switch c.OutState {
		case "dir":
			_ = os.Mkdir(outDir, 0o755)
		case "file":
			_ = os.WriteFile(outDir, []byte("i am a file\n"), 0o644)
		case "symlink":
			// -out names a link with a relative target, several directories away from the working directory
			real := filepath.Join(sb, "real", "outdir")
			_ = os.MkdirAll(real, 0o755)
			linkDir := filepath.Join(sb, "links", "deep")
			_ = os.MkdirAll(linkDir, 0o755)
			argOut = filepath.Join(linkDir, "out")
			_ = os.Symlink(filepath.Join("..", "..", "real", "outdir"), argOut)
			outDir = real
		}
		if c.OutFlag == "=" {
			args = append(args, "-out="+argOut)
		} else {
			args = append(args, "-out", argOut)
		}
	}
	outUsable := c.OutFlag == "" || c.OutState == "dir" || c.OutState == "symlink"
	// the effective name
	name := c.Name
	if c.NameFlag == "" {
		name = ""
	}
	effective := name
	if effective == "" {
		switch c.Input {
		case "valid", "syntax", "lexical", "semantic", "pattern", "tconflict", "lalr", "many255", "many256", "many512":
			effective = "calc"
		case "valid5":
			effective = "wide"
		case "valid4":
			effective = "empty"
		case "valid3":
			effective = "big"
		case "valid2":
			effective = "lists"
		case "keyword":
			effective = "func"
		case "predeclared":
			effective = "string"
		}
	}
	if c.NameFlag == "=" {
		args = append(args, "-name="+c.Name)
	} else if c.NameFlag == " " {
		args = append(args, "-name", c.Name)
	}
	// pre-existing state of <out>/<name>
	preUsable := true
	if outUsable && effective != "" && !strings.ContainsAny(effective, "/") {
		target := filepath.Join(outDir, effective)
		switch c.Pre {
		case "dir":
			_ = os.Mkdir(target, 0o755)
			preUsable = false
		case "dirwithfiles":
			_ = os.Mkdir(target, 0o755)
			_ = os.WriteFile(filepath.Join(target, "lexer.go"), []byte("package old // keep me\n"), 0o600)
			_ = os.WriteFile(filepath.Join(target, "notes.txt"), []byte("notes\n"), 0o444)
			preUsable = false
		case "dirwithlinks":
			// the package directory exists and holds links named like the files of the package: writing "through" them
			// would change files elsewhere
			_ = os.Mkdir(target, 0o755)
			victim := filepath.Join(sb, "victim.go")
			_ = os.WriteFile(victim, []byte("package victim // must survive\n"), 0o644)
			for _, f := range []string{"lexer.go", "types.go", "input.go"} {
				_ = os.Symlink(victim, filepath.Join(target, f))
			}
			_ = os.Symlink(filepath.Join(sb, "nowhere.go"), filepath.Join(target, "parser.go"))
			preUsable = false
		case "file":
			_ = os.WriteFile(target, []byte("a file in the way\n"), 0o640)
			preUsable = false
		case "symlinkdir":
			elsewhere := filepath.Join(sb, "elsewhere")
			_ = os.Mkdir(elsewhere, 0o755)
			_ = os.WriteFile(filepath.Join(elsewhere, "types.go"), []byte("package elsewhere\n"), 0o644)
			_ = os.Symlink(elsewhere, target)
			preUsable = false
		case "dangling":
			_ = os.Symlink(filepath.Join(sb, "nowhere"), target)
			preUsable = false
		case "unrelated":
			_ = os.WriteFile(filepath.Join(outDir, "unrelated.txt"), []byte("leave me alone\n"), 0o644)
			_ = os.Mkdir(filepath.Join(outDir, "otherpkg"), 0o755)
			_ = os.WriteFile(filepath.Join(outDir, "otherpkg", "lexer.go"), []byte("package otherpkg\n"), 0o644)
		}
	}
	args = append(args, c.Extra...)
	wantsHelp, wantsVersion := false, false
	for _, e := range c.Extra {
		wantsHelp = wantsHelp || e == "-help"
		wantsVersion = wantsVersion || e == "-version"
	}
	args = append(args, argIn)
	_ = os.MkdirAll(filepath.Join(sb, "home", "gen"), 0o755) // $HOME/gen: a decoy for a tool that expands "~gen"
	before, err := snapshot(sb)
	if err != nil {
		return "", err
	}
	if c.FsizeDelta > 0 {
		c.Fsize = 1000
		if validInput && nameClass(name) == "usable" && !(c.Input == "keyword" && name == "") {
			if ref, rerr := renderRef(src, effective); rerr == nil {
				var sizes []int
				for _, f := range sixFiles {
					if info, serr := os.Stat(filepath.Join(ref, effective, f)); serr == nil {
						sizes = append(sizes, int(info.Size()))
					}
				}
				sort.Sort(sort.Reverse(sort.IntSlice(sizes))) // FsizeFile 0 is the largest file
				if k := c.FsizeFile % len(sixFiles); k < len(sizes) && sizes[k] > c.FsizeDelta {
					c.Fsize = sizes[k] - c.FsizeDelta
				}
				os.RemoveAll(ref)
			}
		}
	}
	cmd := exec.Command(os.Getenv("VERIF_EMERGE_BIN"), args...)
	if c.Fsize > 0 {
		// every write that would make a regular file larger than Fsize bytes fails (EFBIG)
		cmd = exec.Command("prlimit", append([]string{fmt.Sprintf("--fsize=%d", c.Fsize), os.Getenv("VERIF_EMERGE_BIN")}, args...)...)
	}
	cmd.Dir = work
	home := filepath.Join(sb, "home")
	cmd.Env = append(os.Environ(), "HOME="+home)
	var buf bytes.Buffer
	cmd.Stdout, cmd.Stderr = &buf, &buf
	rerr := cmd.Run()
	code := 0
	if ee, ok := rerr.(*exec.ExitError); ok {
		code = ee.ExitCode()
	} else if rerr != nil {
		return "", rerr
	}
	out := buf.String()
	after, err := snapshot(sb)
	if err != nil {
		return "", err
	}
	where := fmt.Sprintf("emerge %s (cwd %s)\noutput:\n%s", strings.Join(args, " "), work, out)
	if c.Fsize > 0 {
		where = fmt.Sprintf("under a file-size limit of %d bytes: %s", c.Fsize, where)
	}
	if os.Getenv("VERIF_DEBUG") != "" {
		fmt.Fprintf(os.Stderr, "DEBUG exit=%d %s\n", code, where)
	}
	// 1. nothing that existed before is modified, truncated or deleted
	var pre []string
	for p := range before {
		pre = append(pre, p)
	}
	sort.Strings(pre)
	for _, p := range pre {
		a, ok := after[p]
		if !ok {
			return "", fmt.Errorf("the run deleted the pre-existing %s %s\n%s", before[p].Type, p, where)
		}
		if a != before[p] {
			return "", fmt.Errorf("the run modified the pre-existing %s %s (before %+v, after %+v)\n%s", before[p].Type, p, before[p], a, where)
		}
	}
	var created []string
	for p := range after {
		if _, ok := before[p]; !ok {
			created = append(created, p)
		}
	}
	sort.Strings(created)
	announced := strings.Contains(strings.ToLower(out), "success")
	summary = fmt.Sprintf("exit=%d created=%d", code, len(created))
	if strings.Contains(out, "panic:") || strings.Contains(out, "goroutine ") {
		return summary, fmt.Errorf("stack trace\n%s", where)
	}
	// 2. -help / -version
	if wantsHelp || wantsVersion {
		if code != 0 || len(created) > 0 {
			return summary, fmt.Errorf("-help/-version must exit 0 and create nothing; exit status %d, created %v\n%s", code, created, where)
		}
		return summary, nil
	}
	// 3. success iff announced
	if (code == 0) != announced {
		return summary, fmt.Errorf("exit status %d but success announced=%v\n%s", code, announced, where)
	}
	// 4. expected outcome
	nc := nameClass(name)
	if c.Input == "keyword" && name == "" {
		nc = "unusable"
	}
	if c.Input == "predeclared" && name == "" {
		nc = "either" // a predeclared identifier as package name may be accepted or rejected
	}
	mustSucceed := validInput && outUsable && preUsable && nc == "usable" && c.Fsize == 0
	mustFail := !validInput || !outUsable || !preUsable || nc == "unusable"
	if mustSucceed && code != 0 {
		return summary, fmt.Errorf("the specification is valid, the name %q is usable and the output location is free, but the run fails\n%s", effective, where)
	}
	if mustFail && code == 0 {
		return summary, fmt.Errorf("the run announces success although it cannot have produced the package (valid input=%v, output usable=%v, location free=%v, name class of %q=%s)\n%s", validInput, outUsable, preUsable, name, nc, where)
	}
	if nc == "unusable" || !outUsable {
		if len(created) > 0 {
			return summary, fmt.Errorf("the name %q / the output location is not usable, yet the run created %v\n%s", name, created, where)
		}
	}
	if code != 0 {
		// on failure nothing may appear outside of <out>/<name>
		prefix, _ := filepath.Rel(sb, filepath.Join(outDir, effective))
		for _, p := range created {
			if effective == "" || !(p == prefix || strings.HasPrefix(p, prefix+string(filepath.Separator))) {
				return summary, fmt.Errorf("a failing run created %s, outside of <out>/<name>\n%s", p, where)
			}
		}
		return summary, nil
	}
	// 5. success: exactly the package directory with the six files, equal to the in-process rendering
	pkgRel, _ := filepath.Rel(sb, filepath.Join(outDir, effective))
	want := []string{pkgRel}
	for _, f := range sixFiles {
		want = append(want, filepath.Join(pkgRel, f))
	}
	sort.Strings(want)
	if strings.Join(created, "\n") != strings.Join(want, "\n") {
		return summary, fmt.Errorf("a successful run must create exactly <out>/<name> with its six files; created: %v, expected: %v\n%s", created, want, where)
	}
	ref, gerr := renderRef(src, effective)
	if gerr != nil {
		return summary, fmt.Errorf("the binary succeeds but the same generation fails in process: %v\n%s", gerr, where)
	}
	defer os.RemoveAll(ref)
	for _, f := range sixFiles {
		got, _ := os.ReadFile(filepath.Join(outDir, effective, f))
		exp, _ := os.ReadFile(filepath.Join(ref, effective, f))
		if !bytes.Equal(got, exp) {
			return summary, fmt.Errorf("file %s written by the binary differs from the rendering of the same specification and name (%d vs %d bytes)\n%s", f, len(got), len(exp), where)
		}
		file, err := parser.ParseFile(token.NewFileSet(), f, got, parser.PackageClauseOnly)
		if err != nil || file.Name.Name != effective {
			return summary, fmt.Errorf("file %s does not start with the package clause %q: %v\n%s", f, effective, err, where)
		}
		if _, err := parser.ParseFile(token.NewFileSet(), f, got, 0); err != nil {
			return summary, fmt.Errorf("file %s is not valid Go: %v\n%s", f, err, where)
		}
	}
	return summary, nil
}

var hasPrlimit = func() bool { _, err := exec.LookPath("prlimit"); return err == nil }()

var names = []string{"pkg", "P2", "über", "x_1", "func", "package", "go", "string", "nil", "len", "_", "9x", "a-b", "a b", "a/b", "../x", "pkg/", "./pkg", "", "calc", "Type", "__", "v\u00b2", "part\u2163", "x\u0663", "\u0663x", "a\u0301", "\u00e9t\u00e9", ".", "..", "../otherpkg", "./otherpkg", "otherpkg/.."}

func genConfig(t *rapid.T) Config {
	c := Config{
		Input:    rapid.SampledFrom([]string{"valid", "valid", "valid3", "valid3", "valid2", "valid4", "valid5", "syntax", "lexical", "semantic", "pattern", "tconflict", "lalr", "keyword", "missing", "directory", "many255", "many256", "many512"}).Draw(t, "input"),
		OutFlag:  rapid.SampledFrom([]string{"", "=", " ", "="}).Draw(t, "outFlag"),
		OutState: rapid.SampledFrom([]string{"dir", "dir", "dir", "missing", "file", "symlink"}).Draw(t, "outState"),
		Pre:      rapid.SampledFrom([]string{"none", "none", "dir", "dirwithfiles", "dirwithlinks", "file", "symlinkdir", "dangling", "unrelated"}).Draw(t, "pre"),
		NameFlag: rapid.SampledFrom([]string{"", "", "=", " "}).Draw(t, "nameFlag"),
		Name:     rapid.SampledFrom(names).Draw(t, "name"),
	}
	if rapid.IntRange(0, 5).Draw(t, "keywordName") == 0 {
		// every keyword and predeclared identifier of the language (read from the go/token and go/types tables)
		var words []string
		for k := token.BREAK; k <= token.VAR; k++ {
			words = append(words, k.String())
		}
		words = append(words, types.Universe.Names()...)
		sort.Strings(words)
		c.Name = rapid.SampledFrom(words).Draw(t, "word")
	}
	if c.NameFlag == " " && c.Name == "" {
		c.NameFlag = "=" // '-name' followed by an empty argument is the same as -name=
	}
	for _, f := range []string{"-debug", "-verbose"} {
		if rapid.IntRange(0, 3).Draw(t, f) == 0 {
			c.Extra = append(c.Extra, f)
		}
	}
	if hasPrlimit && rapid.IntRange(0, 4).Draw(t, "writeFault") == 0 {
		if rapid.Bool().Draw(t, "absoluteLimit") {
			c.Fsize = rapid.SampledFrom([]int{1, 100, 600, 2000, 3500, 6000, 9000, 12000, 20000}).Draw(t, "fsize")
		} else {
			c.FsizeFile = rapid.SampledFrom([]int{0, 0, 0, 0, 1, 2, 5}).Draw(t, "fsizeFile")
			c.FsizeDelta = rapid.SampledFrom([]int{1, 2, 17, 100, 1000, 4095, 4096, 4097}).Draw(t, "fsizeDelta")
		}
	}
	c.Rel = rapid.IntRange(0, 3).Draw(t, "relativePaths") == 0
	c.Tilde = c.Rel && rapid.Bool().Draw(t, "tildeName")
	switch rapid.IntRange(0, 14).Draw(t, "info") {
	case 0:
		c.Extra = append(c.Extra, "-help")
	case 1:
		c.Extra = append(c.Extra, "-version")
	}
	return c
}

func TestConfigurations(t *testing.T) {
	rec.Rule(rule + ruleMore)
	rec.Assume("write faults are injected with a file-size limit (prlimit --fsize: a write beyond the limit fails with EFBIG) when prlimit is installed; permission faults (EACCES) cannot be injected as root and are not claimed; a predeclared identifier as package name may be accepted or rejected")
	if _, err := os.Stat(os.Getenv("VERIF_EMERGE_BIN")); err != nil {
		t.Skip("emerge binary not built")
	}
	rec.Check(t, 500, 20000, func(t *rapid.T) {
		c := genConfig(t)
		summary, err := checkConfig(c)
		nt := c.Pre != "none" || !(c.Input == "valid" || c.Input == "valid2" || c.Input == "valid3" || c.Input == "valid4")
		cls := []string{"input_" + c.Input, "pre_" + c.Pre, "name_" + nameClass(c.Name), summary}
		if c.OutFlag != "" {
			cls = append(cls, "out_"+c.OutState)
		}
		if c.Fsize > 0 || c.FsizeDelta > 0 {
			cls = append(cls, "write_fault_injected")
		}
		if c.FsizeDelta > 0 {
			cls = append(cls, "write_fault_in_last_part_of_a_file")
		}
		if c.Rel {
			cls = append(cls, "relative_paths_specification_elsewhere")
		}
		rec.Case(c.String(), nt, cls...)
		rec.Sample(c.Input+"/"+c.Pre, c)
		if err != nil {
			rec.Fail(t, "config", c, "%v", err)
		}
	})
}

// every keyword of the language as package name, through -name and as the grammar's own name
func TestEveryKeywordAsName(t *testing.T) {
	rec.Begin(t)
	rec.Rule(rule + ruleMore)
	if rec.Shard() != 0 {
		t.Skip("seed independent: shard 0 only")
	}
	if _, err := os.Stat(os.Getenv("VERIF_EMERGE_BIN")); err != nil {
		t.Skip("emerge binary not built")
	}
	// -name replaces the grammar's own name, whatever that name is; -out may be a link
	for _, c := range []Config{
		{Input: "keyword", OutFlag: "=", OutState: "dir", Pre: "none", NameFlag: "=", Name: "gop"},
		{Input: "keyword", OutFlag: " ", OutState: "dir", Pre: "none", NameFlag: " ", Name: "gop"},
		{Input: "predeclared", OutFlag: "=", OutState: "dir", Pre: "none", NameFlag: "=", Name: "gop"},
		{Input: "predeclared", OutFlag: "=", OutState: "dir", Pre: "none"},
		{Input: "valid", OutFlag: "=", OutState: "symlink", Pre: "none"},
		{Input: "valid", OutFlag: " ", OutState: "symlink", Pre: "dirwithfiles"},
		{Input: "valid3", OutFlag: "=", OutState: "symlink", Pre: "none", NameFlag: "=", Name: "viaLink"},
	} {
		summary, err := checkConfig(c)
		rec.Case(c.String(), true, "name_replaced_or_out_is_a_link", summary)
		if err != nil {
			rec.Fail(t, "config", c, "%v", err)
		}
	}
	// names that are no Go identifiers although they look like ones, and identifiers that need care
	for _, name := range []string{"v²", "partⅣ", "x٣", "x½", "a·b", "Calc", "CamelCase", "ünï", "π", "x_", "_x", "a1", "日本", "a-b", "a.b", "a b", "1a", "²", "á", "́a", "x‌", "if_", "String"} {
		for _, flag := range []string{"=", " "} {
			c := Config{Input: "valid", OutFlag: "=", OutState: "dir", Pre: "none", NameFlag: flag, Name: name}
			summary, err := checkConfig(c)
			rec.Case(c.String(), true, "special_name", summary)
			if err != nil {
				rec.Fail(t, "config", c, "%v", err)
			}
		}
	}
	for k := token.BREAK; k <= token.VAR; k++ {
		for _, flag := range []string{"=", " "} {
			c := Config{Input: "valid", OutFlag: "=", OutState: "dir", Pre: "none", NameFlag: flag, Name: k.String()}
			summary, err := checkConfig(c)
			rec.Case(c.String(), true, "keyword_as_name", summary)
			if err != nil {
				rec.Fail(t, "config", c, "%v", err)
			}
		}
	}
}

// several runs at the same time into one output directory, each with a package name of its own: every run that
// announces success has written its package completely (what one run stages, creates or cleans up is its own)
func TestParallelRunsIntoOneDirectory(t *testing.T) {
	rec.Begin(t)
	rec.Rule(rule + ruleMore)
	if rec.Shard() != 0 {
		t.Skip("seed independent: shard 0 only")
	}
	bin := os.Getenv("VERIF_EMERGE_BIN")
	if _, err := os.Stat(bin); err != nil {
		t.Skip("emerge binary not built")
	}
	rounds := rec.Pick(4, 40)
	for round := 0; round < rounds; round++ {
		sb, err := os.MkdirTemp("", "c16par")
		if err != nil {
			t.Fatalf("%v", err)
		}
		out := filepath.Join(sb, "out")
		_ = os.Mkdir(out, 0o755)
		in := filepath.Join(sb, "in.ebnf")
		_ = os.WriteFile(in, []byte(inputs["valid3"]), 0o644)
		const n = 6
		type res struct {
			code int
			out  string
		}
		results := make([]res, n)
		var wg sync.WaitGroup
		start := make(chan struct{})
		for i := 0; i < n; i++ {
			wg.Add(1)
			go func(i int) {
				defer wg.Done()
				cmd := exec.Command(bin, "-out="+out, fmt.Sprintf("-name=pkg%d", i), in)
				cmd.Dir = sb
				var buf bytes.Buffer
				cmd.Stdout, cmd.Stderr = &buf, &buf
				<-start
				err := cmd.Run()
				if ee, ok := err.(*exec.ExitError); ok {
					results[i].code = ee.ExitCode()
				} else if err != nil {
					results[i].code = -1
				}
				results[i].out = buf.String()
			}(i)
		}
		close(start)
		wg.Wait()
		rec.Case(fmt.Sprintf("parallel:%d", round), true, "parallel_runs_into_one_directory")
		for i, r := range results {
			name := fmt.Sprintf("pkg%d", i)
			announced := strings.Contains(strings.ToLower(r.out), "success")
			var missing []string
			for _, f := range sixFiles {
				data, err := os.ReadFile(filepath.Join(out, name, f))
				if err != nil || len(data) == 0 {
					missing = append(missing, f)
					continue
				}
				if _, perr := parser.ParseFile(token.NewFileSet(), f, data, 0); perr != nil {
					missing = append(missing, f+" (not valid Go)")
				}
			}
			problem := ""
			switch {
			case (r.code == 0) != announced:
				problem = fmt.Sprintf("exit status %d but success announced=%v", r.code, announced)
			case r.code == 0 && len(missing) > 0:
				problem = fmt.Sprintf("success is announced, but the package lacks %v", missing)
			case r.code != 0:
				problem = fmt.Sprintf("the run fails (exit status %d) although the specification is valid, the name usable and <out>/%s free", r.code, name)
			}
			if problem != "" {
				os.RemoveAll(sb)
				rec.Fail(t, "parallel", map[string]any{"runs": n, "round": round}, "%d runs at the same time into one output directory with the names pkg0..pkg%d: run %d: %s\noutput:\n%s", n, n-1, i, problem, r.out)
				return
			}
		}
		os.RemoveAll(sb)
	}
}

func TestReplay(t *testing.T) {
	if !rec.IsReplay() {
		t.Skip("not in replay mode")
	}
	kind, raw, _ := rec.Replay()
	if kind != "config" {
		t.Skip("schedule-dependent cases are re-run by the regular check")
	}
	var c Config
	if err := json.Unmarshal(raw, &c); err != nil {
		t.Fatal(err)
	}
	if _, err := checkConfig(c); err != nil {
		rec.Fail(t, "config", c, "%v", err)
	}
}
