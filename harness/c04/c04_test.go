// Package c04 decides property C04: the built-in EBNF parser accepts exactly the documented, disambiguated
// grammar and its embedded tables are exactly the LALR(1) tables of that grammar.
package c04

import (
	"bytes"
	"encoding/json"
	"fmt"
	"os"
	"os/exec"
	"path/filepath"
	"strings"
	"testing"

	"github.com/moorara/algo/grammar"
	"github.com/moorara/algo/lexer"
	"github.com/moorara/algo/parser/lr"
	"github.com/moorara/algo/parser/lr/lookahead"
	"pgregory.net/rapid"

	"io"

	ebnf "github.com/gardenbed/emerge/internal/ebnf/parser"
	"github.com/gardenbed/emerge/internal/vh/gen"
	"github.com/gardenbed/emerge/internal/vh/rec"
	"github.com/gardenbed/emerge/internal/vh/ref"
)

func TestMain(m *testing.M) { rec.Main(m, "C04") }

// ruleMore describes what was added to the exploration in the build phase.
const ruleMore = "; also: sentences with 1..3500 nested brackets, alternatives, juxtaposed operands, declarations or handles (sizes biased to powers of two and to 510/511/1017/1018), with and without one replaced token"

const rule = "(1) every (state, terminal) and (state, non-terminal) pair of the embedded tables against the LALR(1) table built from the package's grammar, both directions, plus foreign symbols and states beyond the last (complete enumeration); " +
	"(2) regeneration of parsing_table.go compared byte for byte; (3) all token-kind sequences over the 22 kinds by depth-first search with viable-prefix pruning up to a length bound, and random longer sequences (printed models with token edits): " +
	"viable prefix?, accepted?, and for accepted sequences the full derivation, compared with an independent recursive-descent parser written from the documented grammar and precedence list; " +
	"non-trivial = accepted sequence exercising a documented ambiguity (juxtaposition, '|', trailing '|', directive followed by a declaration), or a rejected sequence with a non-empty viable prefix; distinct by token-kind sequence"

type input struct {
	Kinds []string `json:"kinds"`
}

// ---------- (1) tables ----------

func TestTablesEntryForEntry(t *testing.T) {
	rec.Begin(t)
	rec.Rule(rule + ruleMore)
	if rec.Shard() != 0 {
		t.Skip("seed independent: shard 0 only")
	}
	G, prec, prods := ebnf.VerifGrammar()
	// the package's grammar must be the documented one (own copy of the 35 productions)
	if len(prods) != len(ref.Productions) {
		rec.Fail(t, "grammar", nil, "the package lists %d productions, the documented grammar has %d", len(prods), len(ref.Productions))
	}
	for i, p := range prods {
		want := ref.Productions[i]
		var body []string
		for _, s := range p.Body {
			body = append(body, s.Name())
		}
		if string(p.Head) != want.Head || strings.Join(body, " ") != strings.Join(want.Body, " ") {
			rec.Fail(t, "grammar", map[string]any{"index": i}, "production %d is %s, the documented grammar has %s -> %v", i, p, want.Head, want.Body)
		}
	}
	T, err := lookahead.BuildParsingTable(G, prec)
	if err != nil {
		rec.Fail(t, "grammar", nil, "the LALR(1) table of the package's grammar cannot be built: %v", err)
	}
	index := func(p *grammar.Production) int {
		for i, q := range prods {
			if q.Equal(p) {
				return i
			}
		}
		return -1
	}
	maxState := 0
	for _, s := range T.States {
		if int(s) > maxState {
			maxState = int(s)
		}
	}
	terms := append([]grammar.Terminal{}, T.Terminals...)
	terms = append(terms, grammar.Endmarker, "FOREIGN", "ident")
	nonterms := append([]grammar.NonTerminal{}, T.NonTerminals...)
	nonterms = append(nonterms, "foreign")
	pairs, entries := 0, 0
	for s := 0; s <= maxState+2; s++ {
		for _, a := range terms {
			pairs++
			typ, param, aerr := ebnf.ACTION(s, a)
			var want *lr.Action
			if s <= maxState {
				if w, werr := T.ACTION(lr.State(s), a); werr == nil {
					want = w
				}
			}
			switch {
			case want == nil && aerr == nil:
				rec.Fail(t, "table", map[string]any{"state": s, "terminal": string(a)}, "ACTION[%d,%s] = %v %d is an extra entry: the LALR(1) table of the documented grammar has none", s, a, typ, param)
			case want != nil && aerr != nil:
				rec.Fail(t, "table", map[string]any{"state": s, "terminal": string(a)}, "ACTION[%d,%s] is missing: the LALR(1) table has %v", s, a, want)
			case want != nil:
				entries++
				ok := typ == want.Type
				switch want.Type {
				case lr.SHIFT:
					ok = ok && param == int(want.State)
				case lr.REDUCE:
					ok = ok && param == index(want.Production)
				}
				if !ok {
					rec.Fail(t, "table", map[string]any{"state": s, "terminal": string(a)}, "ACTION[%d,%s] = %v %d, the LALR(1) table has %v", s, a, typ, param, want)
				}
			}
		}
		for _, A := range nonterms {
			pairs++
			got := ebnf.GOTO(s, A)
			want := -1
			if s <= maxState {
				if w, werr := T.GOTO(lr.State(s), A); werr == nil {
					want = int(w)
				}
			}
			if got != want {
				rec.Fail(t, "table", map[string]any{"state": s, "nonterminal": string(A)}, "GOTO[%d,%s] = %d, the LALR(1) table has %d", s, A, got, want)
			}
			if want >= 0 {
				entries++
			}
		}
	}
	rec.Evals(pairs)
	rec.Count("table_pairs_compared", pairs)
	rec.Count("table_entries", entries)
	rec.Count("table_states", maxState+1)
	rec.Distinct("tables")
	rec.Exhaustive(true)
}

// ---------- (2) regeneration ----------

func TestRegenerationReproducesCheckedInFile(t *testing.T) {
	rec.Begin(t)
	if rec.Shard() != 0 {
		t.Skip("seed independent: shard 0 only")
	}
	src := os.Getenv("VERIF_SRC")
	if src == "" {
		t.Skip("VERIF_SRC not set")
	}
	tmp := t.TempDir()
	bin := filepath.Join(tmp, "generate")
	build := exec.Command("go", "build", "-trimpath", "-o", bin, "./internal/ebnf/parser/generate")
	build.Dir = src
	if out, err := build.CombinedOutput(); err != nil {
		t.Fatalf("cannot build the table generator: %v\n%s", err, out)
	}
	run := exec.Command(bin)
	run.Dir = tmp
	if out, err := run.CombinedOutput(); err != nil {
		rec.Fail(t, "regenerate", nil, "the table generator fails: %v\n%s", err, out)
	}
	got, err := os.ReadFile(filepath.Join(tmp, "parsing_table.go"))
	if err != nil {
		rec.Fail(t, "regenerate", nil, "the table generator wrote no parsing_table.go: %v", err)
	}
	want, err := os.ReadFile(filepath.Join(src, "internal", "ebnf", "parser", "parsing_table.go"))
	if err != nil {
		t.Fatal(err)
	}
	rec.Evals(1)
	rec.Count("regenerated_bytes", len(got))
	if !bytes.Equal(got, want) {
		gl, wl := strings.Split(string(got), "\n"), strings.Split(string(want), "\n")
		line := 0
		for line < len(gl) && line < len(wl) && gl[line] == wl[line] {
			line++
		}
		g, w := "<end of file>", "<end of file>"
		if line < len(gl) {
			g = gl[line]
		}
		if line < len(wl) {
			w = wl[line]
		}
		rec.Fail(t, "regenerate", map[string]any{"line": line + 1}, "regenerating the tables does not reproduce the checked-in file: first difference at line %d\n  regenerated: %s\n  checked in:  %s", line+1, g, w)
	}
}

// ---------- (3) language and derivations ----------

// lrRun is a textbook shift-reduce driver over the embedded ACTION/GOTO with the documented productions.
// It returns the number of tokens shifted before an error (or -1 if accepted) and the event sequence.
func lrRun(kinds []string) (accepted bool, errAt int, events []int) {
	stack := []int{0}
	i := 0
	for steps := 0; steps < 5000000; steps++ {
		a := grammar.Endmarker
		if i < len(kinds) {
			a = grammar.Terminal(kinds[i])
		}
		typ, param, err := ebnf.ACTION(stack[len(stack)-1], a)
		if err != nil {
			return false, i, events
		}
		switch typ {
		case lr.SHIFT:
			stack = append(stack, param)
			events = append(events, i)
			i++
		case lr.REDUCE:
			p := ref.Productions[param]
			stack = stack[:len(stack)-len(p.Body)]
			nx := ebnf.GOTO(stack[len(stack)-1], grammar.NonTerminal(p.Head))
			if nx < 0 {
				return false, i, events
			}
			stack = append(stack, nx)
			events = append(events, -1-param)
		case lr.ACCEPT:
			return true, -1, events
		default:
			return false, i, events
		}
	}
	return false, i, events
}

type sliceLexer struct {
	kinds []string
	i     int
}

func (l *sliceLexer) NextToken() (lexer.Token, error) {
	if l.i >= len(l.kinds) {
		return lexer.Token{}, io.EOF
	}
	k := l.kinds[l.i]
	l.i++
	return lexer.Token{Terminal: grammar.Terminal(k), Lexeme: k, Pos: lexer.Position{Offset: l.i, Line: 1, Column: l.i}}, nil
}

// realParse drives the real Parser.Parse with a token source made of the given kinds.
func realParse(kinds []string) (accepted bool, events []int, err error) {
	p := &ebnf.Parser{L: &sliceLexer{kinds: kinds}}
	n := 0
	perr := rec.Guard(func() {
		err = p.Parse(func(*lexer.Token) error { events = append(events, n); n++; return nil },
			func(i int) error { events = append(events, -1-i); return nil })
	})
	if perr != nil {
		return false, events, perr
	}
	return err == nil, events, nil
}

func eqInts(a, b []int) bool {
	if len(a) != len(b) {
		return false
	}
	for i := range a {
		if a[i] != b[i] {
			return false
		}
	}
	return true
}

func showEvents(ev []int) string {
	var parts []string
	for _, e := range ev {
		if e >= 0 {
			parts = append(parts, fmt.Sprintf("t%d", e))
		} else {
			p := ref.Productions[-1-e]
			parts = append(parts, fmt.Sprintf("[%d:%s]", -1-e, p.Head))
		}
	}
	return strings.Join(parts, " ")
}

// checkSequence compares the embedded tables (own driver and the real Parse loop) with the reference parser.
func checkSequence(kinds []string, useReal bool) (accepted bool, errAt int, err error) {
	tree, refErr := ref.ParseKinds(kinds)
	acc, at, ev := lrRun(kinds)
	if (tree != nil) != acc {
		return acc, at, fmt.Errorf("token sequence %v: the embedded tables accept=%v, the documented grammar accepts=%v", kinds, acc, tree != nil)
	}
	if tree == nil && at != refErr {
		return acc, at, fmt.Errorf("token sequence %v: the embedded tables stop at token %d, the documented grammar cannot continue after token %d", kinds, at, refErr)
	}
	if tree != nil {
		var want []int
		tree.PostOrder(&want)
		if !eqInts(want, ev) {
			return acc, at, fmt.Errorf("token sequence %v is derived differently from the documented disambiguation:\n  tables:     %s\n  documented: %s", kinds, showEvents(ev), showEvents(want))
		}
	}
	if useReal {
		racc, rev, rerr := realParse(kinds)
		if rerr != nil && racc {
			return acc, at, rerr
		}
		if _, isPanic := rerr.(interface{ Unwrap() error }); rerr != nil && !isPanic && strings.HasPrefix(rerr.Error(), "panic") {
			return acc, at, fmt.Errorf("token sequence %v: %v", kinds, rerr)
		}
		if racc != acc {
			return acc, at, fmt.Errorf("token sequence %v: Parser.Parse accepts=%v but a textbook driver over the same tables accepts=%v", kinds, racc, acc)
		}
		if acc && !eqInts(rev, ev) {
			return acc, at, fmt.Errorf("token sequence %v: Parser.Parse yields a different event sequence than a textbook driver over the same tables:\n  Parse:  %s\n  driver: %s", kinds, showEvents(rev), showEvents(ev))
		}
	}
	return acc, at, nil
}

func ambiguity(kinds []string) []string {
	var cls []string
	bars := 0
	operandRun := false
	for i, k := range kinds {
		if k == "|" {
			bars++
			if i+1 < len(kinds) && (kinds[i+1] == ";" || kinds[i+1] == ")" || kinds[i+1] == "]" || kinds[i+1] == "}" || kinds[i+1] == "}}" || kinds[i+1] == ">" || kinds[i+1] == "|") {
				cls = append(cls, "trailing_bar")
			}
		}
		if i > 2 && (k == "IDENT" || k == "TOKEN" || k == "STRING" || k == "(" || k == "[" || k == "{" || k == "{{") {
			p := kinds[i-1]
			if p == "IDENT" || p == "TOKEN" || p == "STRING" || p == ")" || p == "]" || p == "}" || p == "}}" {
				operandRun = true
			}
		}
	}
	if bars >= 2 {
		cls = append(cls, "two_or_more_bars")
	} else if bars == 1 {
		cls = append(cls, "one_bar")
	}
	if operandRun {
		cls = append(cls, "juxtaposition")
	}
	return cls
}

func TestAllTokenSequencesToBound(t *testing.T) {
	rec.Begin(t)
	rec.Rule(rule + ruleMore)
	maxLen := rec.Pick(10, 12)
	var seqs, viable, accepted, realRejected int
	var walk func(prefix []string)
	walk = func(prefix []string) {
		// shard by the fourth token (the first three are forced: grammar IDENT ...)
		if len(prefix) == 4 && rec.NShards() > 1 {
			h := 0
			for _, k := range prefix[2:] {
				for _, c := range k {
					h = h*31 + int(c)
				}
			}
			if h%rec.NShards() != rec.Shard() {
				return
			}
		}
		acc, at, err := checkSequence(prefix, false)
		seqs++
		if err != nil {
			rec.Fail(t, "kinds", input{Kinds: append([]string{}, prefix...)}, "%v", err)
		}
		if acc {
			accepted++
			if cls := ambiguity(prefix); len(cls) > 0 {
				rec.Distinct(strings.Join(prefix, " "))
				for _, c := range cls {
					rec.Class(c, 1)
				}
				rec.Sample("accepted-"+cls[0], strings.Join(prefix, " "))
			}
			// the real driver loop on every accepted sequence
			if _, _, err := checkSequence(prefix, true); err != nil {
				rec.Fail(t, "kinds", input{Kinds: append([]string{}, prefix...)}, "%v", err)
			}
		}
		isViable := acc || at >= len(prefix)
		if !isViable {
			if at > 2 {
				rec.Distinct("rej:" + strings.Join(prefix, " "))
			}
			// the last token cannot follow: the real driver loop must not accept the sequence, alone or closed by ";"
			// (a driver that reads a token differently from the tables, e.g. "}}" as "}" "}", accepts more than the grammar)
			for _, tail := range [][]string{nil, {";"}} {
				seq := append(append([]string{}, prefix...), tail...)
				if racc, _, _ := realParse(seq); racc {
					rec.Fail(t, "kinds", input{Kinds: seq}, "token sequence %v: Parser.Parse accepts it, but the documented grammar cannot continue after token %d", seq, at)
				}
				realRejected++
			}
			return
		}
		viable++
		if len(prefix) == maxLen {
			return
		}
		for _, k := range ref.TokenKinds {
			walk(append(prefix, k))
		}
	}
	walk(nil)
	rec.Evals(seqs)
	rec.Count("dfs_sequences", seqs)
	rec.Count("dfs_viable_prefixes", viable)
	rec.Count("dfs_accepted", accepted)
	rec.Count("dfs_max_len", maxLen)
	rec.Count("dfs_rejected_sequences_run_through_the_real_driver", realRejected)
}

func TestRandomLongSequences(t *testing.T) {
	rec.Rule(rule + ruleMore)
	opts := gen.SpecOpts{MaxRules: 3, Depth: 4, Literals: []string{"a", "b"}, Tokens: []string{"TK", "NUM"}, Directives: 3, RuleHandles: true, DupRules: true, EmptyRules: true}
	rec.Check(t, 3000, 120000, func(t *rapid.T) {
		m := gen.Spec(t, opts)
		kinds := ref.Kinds(m.Tokens())
		nEdits := rapid.IntRange(0, 3).Draw(t, "edits")
		for e := 0; e < nEdits && len(kinds) > 0; e++ {
			pos := rapid.IntRange(0, len(kinds)-1).Draw(t, "pos")
			switch rapid.IntRange(0, 4).Draw(t, "edit") {
			case 3:
				// two single brackets become one double bracket (what a scanner makes of them when they touch)
				for q := pos; q+1 < len(kinds); q++ {
					if (kinds[q] == "}" && kinds[q+1] == "}") || (kinds[q] == "{" && kinds[q+1] == "{") {
						kinds = append(kinds[:q], append([]string{kinds[q] + kinds[q]}, kinds[q+2:]...)...)
						break
					}
				}
			case 4:
				// one double bracket becomes two single ones
				for q := pos; q < len(kinds); q++ {
					if kinds[q] == "}}" || kinds[q] == "{{" {
						one := kinds[q][:1]
						kinds = append(kinds[:q], append([]string{one, one}, kinds[q+1:]...)...)
						break
					}
				}
			case 0:
				kinds = append(kinds[:pos], kinds[pos+1:]...)
			case 1:
				kinds = append(kinds[:pos], append([]string{rapid.SampledFrom(ref.TokenKinds).Draw(t, "k")}, kinds[pos:]...)...)
			default:
				kinds[pos] = rapid.SampledFrom(ref.TokenKinds).Draw(t, "k")
			}
		}
		acc, at, err := checkSequence(kinds, true)
		cls := ambiguity(kinds)
		if acc {
			cls = append(cls, "accepted")
		} else {
			cls = append(cls, "rejected")
		}
		rec.Case(strings.Join(kinds, " "), (acc && len(ambiguity(kinds)) > 0) || (!acc && at > 2), cls...)
		if len(kinds) > 30 {
			rec.Sample(fmt.Sprintf("long-acc=%v", acc), strings.Join(kinds, " "))
		}
		if err != nil {
			rec.Fail(t, "kinds", input{Kinds: kinds}, "%v", err)
		}
	})
}

// A specification of thousands of declarations needs hundreds of thousands of driver steps; nothing bounds them.
func TestVeryLongSpecification(t *testing.T) {
	rec.Begin(t)
	rec.Rule(rule + ruleMore)
	if rec.Shard() != 0 {
		t.Skip("seed independent: shard 0 only")
	}
	for _, n := range []int{7000, 20000} {
		kinds := []string{"grammar", "IDENT", ";"}
		for i := 0; i < n; i++ {
			kinds = append(kinds, "IDENT", "=", []string{"IDENT", "STRING", "TOKEN"}[i%3])
			if i%2 == 0 {
				kinds = append(kinds, "|", "IDENT")
			}
			kinds = append(kinds, ";")
		}
		acc, _, err := checkSequence(kinds, true)
		rec.Case(fmt.Sprintf("long:%d", n), true, "very_long_specification", fmt.Sprintf("deep_accepted=%v", acc))
		if err != nil {
			msg := err.Error()
			if len(msg) > 1200 {
				msg = msg[:600] + " ... " + msg[len(msg)-600:]
			}
			rec.Fail(t, "kinds", input{Kinds: kinds}, "%s (a specification of %d declarations)", msg, n)
		}
	}
}

// Deep and long sentences: the grammar bounds neither the nesting depth of brackets nor the number of alternatives or
// juxtaposed operands, so a driver stack, a recursion or a fixed-size buffer must not either.
func TestDeepAndLongSequences(t *testing.T) {
	rec.Rule(rule + ruleMore)
	size := rapid.OneOf(rapid.IntRange(1, 40),
		rapid.SampledFrom([]int{127, 128, 129, 255, 256, 257, 509, 510, 511, 512, 513, 1016, 1017, 1018, 1019, 1023, 1024, 1025, 2047, 2048, 2049, 3000}),
		rapid.IntRange(41, 3500))
	open := []string{"(", "[", "{", "{{"}
	closeOf := map[string]string{"(": ")", "[": "]", "{": "}", "{{": "}}"}
	operands := []string{"IDENT", "TOKEN", "STRING"}
	rec.Check(t, 120, 6000, func(t *rapid.T) {
		shape := rapid.SampledFrom([]string{"nest", "alt", "cat", "nest_alt", "decls", "handles"}).Draw(t, "shape")
		n := size.Draw(t, "n")
		kinds := []string{"grammar", "IDENT", ";"}
		operand := func() string { return rapid.SampledFrom(operands).Draw(t, "operand") }
		nest := func(d int, inner func()) {
			var closers []string
			same := rapid.Bool().Draw(t, "sameBracket")
			b := rapid.SampledFrom(open).Draw(t, "bracket")
			for i := 0; i < d; i++ {
				if !same {
					b = open[(i*7+len(closers))%4]
				}
				kinds = append(kinds, b)
				closers = append(closers, closeOf[b])
			}
			inner()
			for i := len(closers) - 1; i >= 0; i-- {
				kinds = append(kinds, closers[i])
			}
		}
		alts := func(k int) {
			for i := 0; i < k; i++ {
				if i > 0 {
					kinds = append(kinds, "|")
				}
				kinds = append(kinds, operand())
			}
		}
		switch shape {
		case "nest":
			kinds = append(kinds, "IDENT", "=")
			nest(n, func() { kinds = append(kinds, operand()) })
			kinds = append(kinds, ";")
		case "alt":
			kinds = append(kinds, "IDENT", "=")
			alts(n)
			if rapid.Bool().Draw(t, "trailingBar") {
				kinds = append(kinds, "|")
			}
			kinds = append(kinds, ";")
		case "cat":
			kinds = append(kinds, "IDENT", "=")
			for i := 0; i < n; i++ {
				kinds = append(kinds, operand())
			}
			kinds = append(kinds, ";")
		case "nest_alt":
			kinds = append(kinds, "IDENT", "=")
			k := size.Draw(t, "k")
			if n+2*k > 4500 {
				k = (4500 - n) / 2
			}
			nest(n, func() { alts(k + 1) })
			kinds = append(kinds, ";")
		case "decls":
			// long specifications: the number of driver steps is not bounded either (about ten per declaration)
			n *= rapid.SampledFrom([]int{1, 1, 3, 6}).Draw(t, "longer")
			for i := 0; i < n; i++ {
				kinds = append(kinds, "IDENT", "=", operand())
				if rapid.Bool().Draw(t, "semi") {
					kinds = append(kinds, ";")
				}
			}
		case "handles":
			kinds = append(kinds, "@left")
			for i := 0; i < n; i++ {
				kinds = append(kinds, rapid.SampledFrom([]string{"TOKEN", "STRING"}).Draw(t, "handle"))
			}
			kinds = append(kinds, ";")
		}
		edited := false
		if rapid.IntRange(0, 3).Draw(t, "edit") == 0 {
			edited = true
			pos := rapid.IntRange(0, len(kinds)-1).Draw(t, "pos")
			kinds[pos] = rapid.SampledFrom(ref.TokenKinds).Draw(t, "k")
		}
		acc, _, err := checkSequence(kinds, true)
		rec.Case(strings.Join(kinds, " "), n >= 500, "deep_"+shape, fmt.Sprintf("deep_accepted=%v", acc), fmt.Sprintf("deep_edited=%v", edited))
		if err != nil {
			msg := err.Error()
			if len(msg) > 1500 {
				msg = msg[:700] + " ... " + msg[len(msg)-700:]
			}
			rec.Fail(t, "kinds", input{Kinds: kinds}, "%s (shape %s, size %d)", msg, shape, n)
		}
	})
}

func TestReplay(t *testing.T) {
	if !rec.IsReplay() {
		t.Skip("not in replay mode")
	}
	kind, raw, _ := rec.Replay()
	if kind != "kinds" {
		t.Skipf("replay kind %q is re-checked by the regular run (seed independent)", kind)
	}
	var in input
	if err := json.Unmarshal(raw, &in); err != nil {
		t.Fatal(err)
	}
	if _, _, err := checkSequence(in.Kinds, true); err != nil {
		rec.Fail(t, "kinds", in, "%v", err)
	}
}
