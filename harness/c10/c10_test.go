// Package c10 decides property C10: the direct (followpos) construction agrees with the NFA route and with the
// documented meaning of the pattern.
package c10

import (
	"encoding/json"
	"fmt"
	"regexp"
	"strconv"
	"strings"
	"sync"
	"testing"

	auto "github.com/moorara/algo/automata"
	"pgregory.net/rapid"

	rast "github.com/gardenbed/emerge/internal/regex/parser/ast"
	"github.com/gardenbed/emerge/internal/regex/parser/nfa"
	"github.com/gardenbed/emerge/internal/vh/gen"
	"github.com/gardenbed/emerge/internal/vh/rec"
	"github.com/gardenbed/emerge/internal/vh/ref"
)

func TestMain(m *testing.M) { rec.Main(m, "C10") }

const (
	rule = "pattern trees biased towards nullable operands of concatenations, patterns matching the empty string and range quantifiers on groups " +
		"(exhaustive trees up to a node bound, random trees of depth<=4); three-way full language equality by product exploration: reference automaton x followpos DFA, " +
		"reference x NFA-route DFA (two-way route-vs-route for \\p{..} patterns); non-trivial = some concatenation operand is nullable, the pattern matches the empty string, or a range quantifier duplicates a group; distinct by printed text"
	nulKey = "nul-epsilon"
)

var nulOnce sync.Once
var nulFlag bool

func nulTolerated() bool {
	nulOnce.Do(func() {
		n, err := nfa.Parse(".")
		if err != nil {
			return
		}
		nulFlag = rec.Known(nulKey, n.ToDFA().Accept(nil))
	})
	return nulFlag
}

type input struct {
	Pattern string   `json:"pattern"`
	Tree    *ref.Pat `json:"tree"`
	TwoWay  bool     `json:"two_way"`
}

func nullable(p *ref.Pat) bool {
	switch p.K {
	case "grp":
		return nullable(p.Subs[0])
	case "cat":
		for _, s := range p.Subs {
			if !nullable(s) {
				return false
			}
		}
		return true
	case "alt":
		for _, s := range p.Subs {
			if nullable(s) {
				return true
			}
		}
		return false
	case "q":
		return p.Min == 0 || nullable(p.Subs[0])
	}
	return false
}

func features(p *ref.Pat) (nt bool, cls []string) {
	seen := map[string]bool{}
	add := func(c string) {
		if !seen[c] {
			seen[c] = true
			cls = append(cls, c)
		}
	}
	if nullable(p) {
		add("matches_empty")
	}
	p.Walk(func(q *ref.Pat) {
		switch q.K {
		case "cat":
			for i, s := range q.Subs {
				if nullable(s) {
					add("nullable_operand")
					if i > 0 && i < len(q.Subs)-1 {
						add("nullable_middle_operand")
					}
				}
			}
		case "q":
			if len(q.QForm) > 1 && q.Subs[0].K == "grp" {
				add("range_on_group")
			}
			if q.Subs[0].K == "grp" {
				inner := false
				q.Subs[0].Walk(func(r *ref.Pat) {
					if r.K == "q" && r.Max < 0 {
						inner = true
					}
				})
				if inner && (q.Max < 0 || q.Max > 1 || q.Min > 1) {
					add("repeated_group_with_star")
				}
			}
		case "alt":
			add("alt")
		case "uni":
			add("unicode_class")
		}
	})
	return len(cls) > 0 && !(len(cls) == 1 && seen["alt"]), cls
}

func routes(s string) (dAst, dNfa *auto.DFA, err error) {
	var a *rast.AST
	var n *auto.NFA
	var e1, e2 error
	if perr := rec.Guard(func() {
		a, e1 = rast.Parse(s)
		n, e2 = nfa.Parse(s)
		if e1 == nil {
			dAst = a.ToDFA()
		}
		if e2 == nil {
			dNfa = n.ToDFA()
		}
	}); perr != nil {
		return nil, nil, fmt.Errorf("pattern %q: %v", s, perr)
	}
	if e1 != nil {
		return nil, nil, fmt.Errorf("(regex) ast.Parse(%q) rejects a pattern written with documented constructs: %v", s, e1)
	}
	if e2 != nil {
		return nil, nil, fmt.Errorf("nfa.Parse(%q) rejects a pattern written with documented constructs: %v", s, e2)
	}
	return dAst, dNfa, nil
}

func checkThreeWay(p *ref.Pat) error {
	s := p.String()
	dAst, dNfa, err := routes(s)
	if err != nil {
		return err
	}
	strict := ref.NewRef(p, false)
	if w, bad := ref.Diff(strict, dAst); bad {
		return fmt.Errorf("pattern %q: followpos DFA and documented meaning differ on %q (reference accepts: %v)", s, w, strict.Matches([]rune(w)))
	}
	r := strict
	if strict.NulHit && nulTolerated() {
		r = ref.NewRef(p, true)
		rec.Class("nul_tolerant_oracle_for_nfa_route", 1)
	}
	if w, bad := ref.Diff(r, dNfa); bad {
		return fmt.Errorf("pattern %q: NFA-route DFA and documented meaning differ on %q (reference accepts: %v)", s, w, r.Matches([]rune(w)))
	}
	return nil
}

func checkTwoWay(p *ref.Pat) error {
	s := p.String()
	dAst, dNfa, err := routes(s)
	if err != nil {
		return err
	}
	if w, bad := ref.DiffDFA(dAst, dNfa); bad {
		return fmt.Errorf("pattern %q: followpos DFA and NFA-route DFA differ on %q", s, w)
	}
	return nil
}

type tb interface {
	Helper()
	Fatalf(string, ...any)
}

func run(t tb, p *ref.Pat, label string) {
	s := p.String()
	nt, cls := features(p)
	rec.Case(s, nt, cls...)
	if nt {
		rec.Sample(label, s)
	}
	if err := checkThreeWay(p); err != nil {
		rec.Fail(t, "pattern", input{Pattern: s, Tree: p}, "%v", err)
	}
}

func TestExhaustiveSmallTrees(t *testing.T) {
	rec.Begin(t)
	rec.Rule(rule)
	atoms := []*ref.Pat{{K: "lit", R: 'a'}, {K: "lit", R: 'b'}}
	maxN := rec.Pick(3, 4)
	total := 0
	for n := 1; n <= maxN; n++ {
		for i, p := range gen.EnumPatterns(n, atoms) {
			if i%rec.NShards() != rec.Shard() {
				continue
			}
			run(t, p, fmt.Sprintf("enum%d", n))
			total++
		}
	}
	// one size further, cut to a slice per shard
	ps := gen.EnumPatterns(maxN+1, atoms)
	step := rec.Pick(41, 5)
	for i := rec.Shard(); i < len(ps); i += step * rec.NShards() {
		run(t, ps[i], "enum-next")
		total++
	}
	rec.Count("exhaustive_tree_patterns", total)
	rec.Count("exhaustive_tree_max_nodes", maxN)
}

func TestRandomNullableBiased(t *testing.T) {
	rec.Rule(rule)
	rec.Assume("reference semantics excludes mid-pattern anchors and \\p{..} classes; for \\p{..} only the two routes are compared with each other")
	if nulTolerated() {
		rec.Assume("listed finding nul-epsilon (NFA route only): a character set containing code point 0 may also match the empty string in the NFA-route automaton; the followpos automaton is always compared strictly")
	}
	rec.Check(t, 2500, 120000, func(t *rapid.T) {
		depth := rapid.IntRange(1, 4).Draw(t, "depth")
		p := gen.Pattern(t, depth, true)
		if ref.LimitPositions(p, 300) > 0 {
			rec.Class("sets_reduced_to_bound_positions", 1)
		}
		run(t, p, fmt.Sprintf("random-depth%d", depth))
	})
}

var uniNames = []string{`\p{Lu}`, `\p{Ll}`, `\p{L}`, `\p{Letter}`, `\P{Lu}`, `\P{L}`, `\p{Nd}`, `\p{Greek}`, `\P{Greek}`, `\p{Lt}`}

var uniNamesNoNul = []string{`\p{Lu}`, `\p{Ll}`, `\p{L}`, `\p{Letter}`, `\p{Nd}`, `\p{Greek}`, `\p{Lt}`}

func TestUnicodeClassesRouteVsRoute(t *testing.T) {
	rec.Rule(rule)
	rec.Check(t, 150, 6000, func(t *rapid.T) {
		p := gen.Pattern(t, rapid.IntRange(1, 3).Draw(t, "depth"), true)
		ref.LimitPositions(p, 150)
		names := uniNames
		if nulTolerated() {
			// steer around the listed finding: without a reference there is no bug-compatible oracle, so sets
			// that contain code point 0 are not used in the route-vs-route comparison (counted)
			names = uniNamesNoNul
			p.WalkAtoms(func(q *ref.Pat) {
				if set := ref.SetOf(q); set != nil && set[0] {
					*q = ref.Pat{K: "lit", R: 'b'}
					rec.Count("excluded_known_nul_sets", 1)
				}
			})
		}
		// replace some literal atoms by unicode classes
		n := 0
		p.WalkAtoms(func(q *ref.Pat) {
			if q.K == "lit" && n < 2 && rapid.IntRange(0, 2).Draw(t, "uni") == 0 {
				q.K, q.Name = "uni", rapid.SampledFrom(names).Draw(t, "name")
				n++
			}
		})
		if ref.Positions(p) > 1500 {
			// a unicode class under a range quantifier: keep the followpos construction affordable
			p.Walk(func(q *ref.Pat) {
				if q.K == "q" && len(q.QForm) > 1 {
					q.Min, q.Max, q.QForm = 0, 1, "?"
				}
			})
		}
		s := p.String()
		nt, cls := features(p)
		rec.Case(s, nt && n > 0, cls...)
		if n > 0 {
			rec.Sample("unicode", s)
		}
		if err := checkTwoWay(p); err != nil {
			rec.Fail(t, "pattern", input{Pattern: s, Tree: p, TwoWay: true}, "%v", err)
		}
	})
}

// Unicode classes on the direct route, decided relationally on single characters (no reference semantics exists for
// \p{..}): \P{X} matches a character iff \p{X} does not, inside and outside of bracket groups, and the NFA route
// agrees on every character but NUL. The two polarities are built in both orders (a class built earlier in the process
// must not stand in for its complement).
func TestUnicodeClassesOnCharactersDirectRoute(t *testing.T) {
	rec.Begin(t)
	rec.Rule(rule)
	if rec.Shard() != 0 {
		t.Skip("seed independent: shard 0 only")
	}
	// (classes of moderate size: the direct construction is quadratic in the number of character positions)
	names := []string{"Lu", "Ll", "Lt", "Lm", "Nd", "Nl", "Pc", "Pd", "Ps", "Sm", "Sc", "Sk", "Zs", "Latin", "Greek", "Cyrillic"}
	chars := []rune{}
	for c := rune(1); c < 0x80; c++ {
		chars = append(chars, c)
	}
	chars = append(chars, 0xAA, 0xB5, 0xC9, 0xE9, 0xD7, 0x2B0, 0x300, 0x391, 0x3C9, 0x410, 0x44F, 0x5D0, 0x660, 0x2160, 0x2028, 0x20AC, 0x2211, 0x4E2D, 0x1F600, 0x10FFFF)
	accepts := func(d *auto.DFA, c rune) bool { return d.Accept(auto.String{auto.Symbol(c)}) }
	for i, name := range names {
		direct := func(p string) *auto.DFA {
			var d *auto.DFA
			_ = rec.Guard(func() {
				if a, err := rast.Parse(p); err == nil {
					d = a.ToDFA()
				}
			})
			return d
		}
		viaNFA := func(p string) *auto.DFA {
			var d *auto.DFA
			_ = rec.Guard(func() {
				if n, err := nfa.Parse(p); err == nil {
					d = n.ToDFA()
				}
			})
			return d
		}
		var pos, neg *auto.DFA
		if i%2 == 0 {
			pos, neg = direct(`\p{`+name+`}`), direct(`\P{`+name+`}`)
		} else {
			neg, pos = direct(`\P{`+name+`}`), direct(`\p{`+name+`}`)
		}
		inNeg, outPos := direct(`[\P{`+name+`}]`), direct(`[^\p{`+name+`}x]`)
		nPos, nNeg := viaNFA(`\p{`+name+`}`), viaNFA(`\P{`+name+`}`)
		if pos == nil || neg == nil || inNeg == nil || outPos == nil || nPos == nil || nNeg == nil {
			rec.Count("unicode_class_names_not_accepted_by_both_routes", 1)
			continue
		}
		for _, c := range chars {
			in := accepts(pos, c)
			rec.Case(fmt.Sprintf("class:%s:%x", name, c), true, "unicode_class_on_character_direct_route")
			check := func(form string, got, expect bool) {
				if got != expect {
					rec.Fail(t, "class", map[string]any{"pattern": form, "char": int(c)}, "direct route, pattern %s on the character U+%04X: matches=%v, expected %v (\\p{%s} matches it: %v)", form, c, got, expect, name, in)
				}
			}
			if c < 0x80 { // negation is relative to ASCII (documented): beyond it neither form matches
				check(`\P{`+name+`}`, accepts(neg, c), !in)
				check(`[\P{`+name+`}]`, accepts(inNeg, c), !in)
				check(`[^\p{`+name+`}x]`, accepts(outPos, c), !in && c != 'x') // negation is relative to ASCII
			}
			if accepts(nPos, c) != in {
				rec.Fail(t, "class", map[string]any{"pattern": `\p{` + name + `}`, "char": int(c)}, "pattern \\p{%s} on the character U+%04X: the direct route matches=%v, the NFA route matches=%v", name, c, in, accepts(nPos, c))
			}
			if accepts(nNeg, c) != accepts(neg, c) {
				rec.Fail(t, "class", map[string]any{"pattern": `\P{` + name + `}`, "char": int(c)}, "pattern \\P{%s} on the character U+%04X: the direct route matches=%v, the NFA route matches=%v", name, c, accepts(neg, c), accepts(nNeg, c))
			}
		}
	}
}

// regression tier: the inputs of repaired defects (known_findings.json, status fixed)
func TestFixedRegressions(t *testing.T) {
	rec.Begin(t)
	if rec.Shard() != 0 {
		t.Skip("seed independent: shard 0 only")
	}
	l := func(r rune) *ref.Pat { return &ref.Pat{K: "lit", R: r} }
	q := func(p *ref.Pat, form, n, m int) *ref.Pat {
		x := &ref.Pat{K: "q", Subs: []*ref.Pat{p}}
		gen.Quant(x, form, n, m)
		return x
	}
	cat := func(s ...*ref.Pat) *ref.Pat { return &ref.Pat{K: "cat", Subs: s} }
	grp := func(p *ref.Pat) *ref.Pat { return &ref.Pat{K: "grp", Subs: []*ref.Pat{p}} }
	for _, p := range []*ref.Pat{
		cat(q(l('a'), 1, 0, 0), q(l('b'), 1, 0, 0)),          // a*b*
		q(l('a'), 3, 0, 0),                                     // a{0}
		cat(l('a'), q(l('b'), 0, 0, 0), l('c')),                // ab?c
		cat(l('a'), q(l('b'), 1, 0, 0), q(l('c'), 0, 0, 0), l('d')), // ab*c?d
		q(grp(cat(q(l('a'), 1, 0, 0), l('b'))), 3, 2, 0),       // (a*b){2}
		cat(grp(&ref.Pat{K: "alt", Subs: []*ref.Pat{q(l('a'), 1, 0, 0), l('b')}}), l('c')), // (a*|b)c
	} {
		run(t, p, "regression")
	}
}

func TestReplay(t *testing.T) {
	if !rec.IsReplay() {
		t.Skip("not in replay mode")
	}
	_, raw, _ := rec.Replay()
	var in input
	if err := json.Unmarshal(raw, &in); err != nil {
		t.Fatal(err)
	}
	var err error
	if in.Tree == nil {
		// saved by the fuzz target: a raw text, compared route versus route
		dAst, dNfa, e := routes(in.Pattern)
		if e != nil {
			t.Skipf("text is not accepted by both routes: %v", e)
		}
		if w, bad := ref.DiffDFA(dAst, dNfa); bad {
			err = fmt.Errorf("pattern %q: followpos DFA and NFA-route DFA differ on %q", in.Pattern, w)
		}
	} else if in.TwoWay {
		err = checkTwoWay(in.Tree)
	} else {
		err = checkThreeWay(in.Tree)
	}
	if err != nil {
		rec.Fail(t, "pattern", in, "%v", err)
	}
}

// ---------- native fuzz target (thorough tier; `go test -fuzz`) ----------

var fuzzCountRe = regexp.MustCompile(`\{\s*(\d+)\s*(?:,\s*(\d*)\s*)?\}`)

// cheap reports whether the text cannot multiply into a large automaton (repetition counts, wide escapes).
func cheap(s string) bool {
	if len(s) > 32 || strings.Contains(s, `\p`) || strings.Contains(s, `\P`) {
		return false
	}
	if regexp.MustCompile(`\\x[0-9A-F]{5,8}`).MatchString(s) {
		return false
	}
	product := 1
	for _, m := range fuzzCountRe.FindAllStringSubmatch(s, -1) {
		for _, g := range m[1:] {
			if len(g) > 2 {
				return false
			}
			if v, err := strconv.Atoi(g); err == nil && v > 1 {
				if v > 6 {
					return false
				}
				product *= v
			}
		}
	}
	// the direct construction is quadratic in the number of character positions (every member of a set is one)
	est := 0
	for i := 0; i < len(s); i++ {
		switch {
		case s[i] == '.':
			est += 128
		case s[i] == '\\' && i+1 < len(s):
			switch s[i+1] {
			case 'S', 'D', 'W':
				est += 120
			case 'w':
				est += 63
			case 'd':
				est += 10
			case 's':
				est += 6
			default:
				est++
			}
			i++
		case s[i] == '[' && i+1 < len(s) && s[i+1] == '^':
			est += 128
		case s[i] == '[' && i+1 < len(s) && s[i+1] == ':':
			est += 95
		default:
			est++
		}
	}
	// nested unbounded repetitions over long sequences give automata of ten thousand states on the NFA route and ten
	// seconds on the direct one (legitimately): at most three unbounded quantifiers per text
	if strings.Count(s, "*")+strings.Count(s, "+") > 3 {
		return false
	}
	return product <= 40 && est*product <= 400
}

// FuzzRoutes submits arbitrary short texts (coverage guided): whenever both routes accept a text, the two automata
// must accept the same language (route versus route; no reference semantics is needed for that half of the property).
func FuzzRoutes(f *testing.F) {
	for _, s := range []string{`ab?c`, `a*b*`, `(a|b?)c*`, `a{0}`, `(a*b){2}`, `(ab|a)(bc|c)?`, `[a-c]+?x{1,2}`, `\x41[[:digit:]]`, `(a|)b`, `a^b`, `(x|y$)z`, `\d\w`} {
		f.Add(s)
	}
	f.Fuzz(func(t *testing.T, s string) {
		if !cheap(s) {
			return
		}
		if nulTolerated() && (strings.ContainsAny(s, ".") || strings.Contains(s, `\D`) || strings.Contains(s, `\S`) || strings.Contains(s, `\W`) || strings.Contains(s, "ascii") || strings.Contains(s, "cntrl") || strings.Contains(s, `\x0`) || strings.Contains(s, "[^")) {
			return // listed finding: a set containing code point 0 also matches the empty string on the NFA route (and such sets are the expensive ones)
		}
		var dAst, dNfa *auto.DFA
		var e1, e2 error
		if perr := rec.Guard(func() {
			var a *rast.AST
			var n *auto.NFA
			a, e1 = rast.Parse(s)
			n, e2 = nfa.Parse(s)
			if e1 == nil && e2 == nil {
				dAst, dNfa = a.ToDFA(), n.ToDFA()
			}
		}); perr != nil {
			// crashes are C14's subject; nothing to compare
			return
		}
		if dAst == nil || dNfa == nil {
			return
		}
		if nulTolerated() {
			for _, d := range []*auto.DFA{dAst, dNfa} {
				for _, a := range d.Symbols() {
					if a == 0 {
						return // listed finding: a set containing code point 0 also matches the empty string on the NFA route
					}
				}
			}
			if strings.ContainsAny(s, ".") || strings.Contains(s, `\D`) || strings.Contains(s, `\S`) || strings.Contains(s, `\W`) || strings.Contains(s, "ascii") || strings.Contains(s, "cntrl") || strings.Contains(s, `\x0`) {
				return
			}
		}
		if w, bad := ref.DiffDFA(dAst, dNfa); bad {
			msg := fmt.Sprintf("pattern %q: followpos DFA and NFA-route DFA differ on %q", s, w)
			rec.SetTest("FuzzRoutes")
			rec.WriteReplay("text", input{Pattern: s, TwoWay: true}, msg)
			t.Fatalf("%s", msg)
		}
	})
}
