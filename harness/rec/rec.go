// Package rec is the evidence recorder, replay writer and known-finding registry of the harness.
// Every check package calls rec.Main from TestMain and wraps its properties with rec.Check.
package rec

import (
	"encoding/binary"
	"encoding/json"
	"flag"
	"fmt"
	"hash/fnv"
	"os"
	"path/filepath"
	"regexp"
	"runtime/debug"
	"sort"
	"strconv"
	"strings"
	"sync"
	"testing"

	"pgregory.net/rapid"
)

type finding struct {
	Property string `json:"property"`
	Key      string `json:"key"`
	Status   string `json:"status"`
	What     string `json:"what"`
	Record   string `json:"record"`
}

var (
	mu          sync.Mutex
	property    string
	tier        = "quick"
	seed        = uint64(1)
	shard       int
	nshards     = 1
	outDir      string
	evals       int
	hashes      = map[uint64]struct{}{}
	classes     = map[string]int{}
	counters    = map[string]int{}
	samples     []any
	sampleSeen  = map[string]bool{}
	rule        string
	assumptions []string
	exhaustive  *bool
	findings    []finding
	announced   = map[string]bool{}
	currentTest string
	replayKind  string
	replayInput json.RawMessage
	replayTest  string
	isReplay    bool
	maxSamples  = 10
)

// Main initialises the recorder from the environment, runs the tests and flushes the evidence part file.
func Main(m *testing.M, prop string) {
	Init(prop)
	Run(m)
}

// Run runs the tests and flushes the evidence part file.
func Run(m *testing.M) {
	code := m.Run()
	Flush()
	os.Exit(code)
}

// Init initialises the recorder from the environment.
func Init(prop string) {
	property = prop
	if v := os.Getenv("VERIF_TIER"); v != "" {
		tier = v
	}
	if v, err := strconv.ParseUint(os.Getenv("VERIF_SEED"), 10, 64); err == nil && v != 0 {
		seed = v
	}
	if v, err := strconv.Atoi(os.Getenv("VERIF_SHARD")); err == nil {
		shard = v
	}
	if v, err := strconv.Atoi(os.Getenv("VERIF_NSHARDS")); err == nil && v > 0 {
		nshards = v
	}
	outDir = os.Getenv("VERIF_OUT")
	if outDir == "" {
		outDir, _ = os.MkdirTemp("", "vh-out-")
	}
	_ = os.MkdirAll(outDir, 0o755)
	if p := os.Getenv("VERIF_KNOWN"); p != "" {
		if data, err := os.ReadFile(p); err == nil {
			var f struct {
				Findings []finding `json:"findings"`
			}
			if json.Unmarshal(data, &f) == nil {
				findings = f.Findings
			}
		}
	}
	if p := os.Getenv("VERIF_REPLAY"); p != "" {
		data, err := os.ReadFile(p)
		if err != nil {
			fmt.Println("cannot read replay file:", err)
			os.Exit(2)
		}
		var r struct {
			Test  string          `json:"test"`
			Kind  string          `json:"kind"`
			Input json.RawMessage `json:"input"`
		}
		if err := json.Unmarshal(data, &r); err != nil {
			fmt.Println("cannot parse replay file:", err)
			os.Exit(2)
		}
		isReplay, replayKind, replayInput, replayTest = true, r.Kind, r.Input, r.Test
	}
	flag.Parse()
	_ = flag.Set("rapid.nofailfile", "true")
	_ = flag.Set("rapid.seed", strconv.FormatUint(RapidSeed(), 10))
}

// RapidSeed is the PRNG value of this shard: a pure function of VERIF_SEED and the shard index (never 0).
func RapidSeed() uint64 {
	s := seed*1000003 + uint64(shard)
	if s == 0 {
		s = 1
	}
	return s
}

func Tier() string     { return tier }
func Thorough() bool   { return tier == "thorough" }
func Shard() int       { return shard }
func NShards() int     { return nshards }
func Seed() uint64     { return seed }
func OutDir() string   { return outDir }
func Property() string { return property }
func IsReplay() bool   { return isReplay }

// N returns the case count of this shard for the current tier (the thorough total is split over the shards).
func N(quick, thorough int) int {
	n := quick
	if tier == "thorough" {
		n = thorough
	}
	n = (n + nshards - 1) / nshards
	if n < 1 {
		n = 1
	}
	return n
}

// Pick returns q in the quick tier and th in the thorough tier.
func Pick[T any](q, th T) T {
	if tier == "thorough" {
		return th
	}
	return q
}

// Check runs a rapid property with the tier's case count; the test name identifies the replay file.
func Check(t *testing.T, quick, thorough int, prop func(*rapid.T)) {
	t.Helper()
	if isReplay {
		t.Skip("replay mode")
	}
	mu.Lock()
	currentTest = t.Name()
	mu.Unlock()
	_ = flag.Set("rapid.checks", strconv.Itoa(N(quick, thorough)))
	rapid.Check(t, prop)
}

// Begin names the running (non-rapid) test for replay files.
func Begin(t *testing.T) {
	if isReplay {
		t.Skip("replay mode")
	}
	mu.Lock()
	currentTest = t.Name()
	mu.Unlock()
}

func hash64(s string) uint64 {
	h := fnv.New64a()
	_, _ = h.Write([]byte(s))
	return h.Sum64()
}

// Case counts one generated case; canon is its canonical encoding (distinctness), nontrivial the stated rule.
func Case(canon string, nontrivial bool, cls ...string) {
	mu.Lock()
	defer mu.Unlock()
	evals++
	if nontrivial {
		hashes[hash64(canon)] = struct{}{}
	}
	for _, c := range cls {
		if c != "" {
			classes[c]++
		}
	}
}

// Evals adds n evaluations that are not individually classified (exhaustive sweeps).
func Evals(n int) {
	mu.Lock()
	evals += n
	mu.Unlock()
}

// Distinct registers a distinct non-trivial case without counting an evaluation.
func Distinct(canon string) {
	mu.Lock()
	hashes[hash64(canon)] = struct{}{}
	mu.Unlock()
}

func Class(c string, n int) {
	mu.Lock()
	classes[c] += n
	mu.Unlock()
}

func Count(name string, n int) {
	mu.Lock()
	counters[name] += n
	mu.Unlock()
}

// Sample keeps a few actual cases, spread over the run (the first ones of each distinct label).
func Sample(label string, v any) {
	mu.Lock()
	defer mu.Unlock()
	if sampleSeen[label] || len(samples) >= maxSamples {
		return
	}
	sampleSeen[label] = true
	samples = append(samples, v)
}

func Rule(s string) {
	mu.Lock()
	if rule == "" {
		rule = s
	} else if !strings.Contains(rule, s) {
		rule += " | " + s
	}
	mu.Unlock()
}

func Assume(s string) {
	mu.Lock()
	defer mu.Unlock()
	for _, a := range assumptions {
		if a == s {
			return
		}
	}
	assumptions = append(assumptions, s)
}

func Exhaustive(b bool) {
	mu.Lock()
	exhaustive = &b
	mu.Unlock()
}

// Listed reports whether known_findings.json lists key as a known (unrepaired) finding of this property.
func Listed(key string) bool {
	for _, f := range findings {
		if f.Property == property && f.Key == key && f.Status == "known" {
			return true
		}
	}
	return false
}

// Announce prints the KNOWN-FINDING line of a listed finding whose probe still fails (once per run).
func Announce(key string) {
	mu.Lock()
	defer mu.Unlock()
	if announced[key] {
		return
	}
	announced[key] = true
	what := key
	for _, f := range findings {
		if f.Property == property && f.Key == key {
			what = f.What
		}
	}
	line := fmt.Sprintf("KNOWN-FINDING: property=%s %s", property, what)
	f, err := os.OpenFile(filepath.Join(outDir, "known.txt"), os.O_CREATE|os.O_APPEND|os.O_WRONLY, 0o644)
	if err == nil {
		fmt.Fprintln(f, line)
		f.Close()
	}
}

// Known handles the outcome of a probe of a possibly known defect: present says whether the defect still
// shows.  It returns true if the defect is present AND listed (the caller then tolerates / steers around exactly
// that class); a present but unlisted defect returns false (the caller must treat it as a violation), an absent
// defect returns false as well (strict mode).
func Known(key string, present bool) bool {
	if !present {
		return false
	}
	if Listed(key) {
		Announce(key)
		return true
	}
	return false
}

type failer interface {
	Helper()
	Fatalf(format string, args ...any)
}

var nameRe = regexp.MustCompile(`[^A-Za-z0-9_.-]+`)

// Fail records a replay file for the failing case (the last write of a test wins: rapid re-runs the
// minimal case last) and fails the test.
func Fail(t failer, kind string, input any, format string, args ...any) {
	t.Helper()
	msg := fmt.Sprintf(format, args...)
	WriteReplay(kind, input, msg)
	t.Fatalf("%s", msg)
}

func WriteReplay(kind string, input any, msg string) {
	mu.Lock()
	name := currentTest
	mu.Unlock()
	if isReplay {
		name = "replay"
	}
	data, err := json.MarshalIndent(map[string]any{
		"property": property,
		"test":     name,
		"kind":     kind,
		"input":    input,
		"message":  msg,
		"seed":     seed,
		"tier":     tier,
	}, "", " ")
	if err != nil {
		data, _ = json.Marshal(map[string]any{"property": property, "test": name, "kind": kind, "message": msg + " (input not serialisable: " + err.Error() + ")"})
	}
	_ = os.WriteFile(filepath.Join(outDir, "replay."+nameRe.ReplaceAllString(name, "_")+".json"), data, 0o644)
}

// SetTest names the running test for replay files (fuzz targets).
func SetTest(name string) {
	mu.Lock()
	currentTest = name
	mu.Unlock()
}

// Replay returns the saved case in replay mode.
func Replay() (kind string, input json.RawMessage, test string) {
	return replayKind, replayInput, replayTest
}

// Guard runs f and converts a panic into an error carrying the stack.
func Guard(f func()) (err error) {
	defer func() {
		if r := recover(); r != nil {
			err = fmt.Errorf("panic: %v\n%s", r, debug.Stack())
		}
	}()
	f()
	return nil
}

// Flush writes the evidence part file and the hash set of distinct non-trivial cases.
func Flush() {
	mu.Lock()
	defer mu.Unlock()
	part := map[string]any{
		"evaluations": evals,
		"classes":     classes,
		"counters":    counters,
		"samples":     samples,
		"rule":        rule,
		"assumptions": assumptions,
	}
	if exhaustive != nil {
		part["exhaustive"] = *exhaustive
	}
	data, _ := json.MarshalIndent(part, "", " ")
	_ = os.WriteFile(filepath.Join(outDir, "evidence.part.json"), data, 0o644)
	keys := make([]uint64, 0, len(hashes))
	for h := range hashes {
		keys = append(keys, h)
	}
	sort.Slice(keys, func(i, j int) bool { return keys[i] < keys[j] })
	buf := make([]byte, 8*len(keys))
	for i, h := range keys {
		binary.LittleEndian.PutUint64(buf[8*i:], h)
	}
	_ = os.WriteFile(filepath.Join(outDir, "nt.hashes"), buf, 0o644)
}

// MentionsPos reports whether a diagnostic names the file and the given line and column: either in the usual
// file:line:column form or spelled out (line N ... column M / col M).
func MentionsPos(msg, file string, line, col int) bool {
	if strings.Contains(msg, fmt.Sprintf("%s:%d:%d", file, line, col)) {
		return true
	}
	if !strings.Contains(msg, file) {
		return false
	}
	l := strings.ToLower(msg)
	hasLine := strings.Contains(l, fmt.Sprintf("line %d", line)) || strings.Contains(l, fmt.Sprintf("line: %d", line))
	hasCol := strings.Contains(l, fmt.Sprintf("column %d", col)) || strings.Contains(l, fmt.Sprintf("col %d", col)) || strings.Contains(l, fmt.Sprintf("column: %d", col))
	return hasLine && hasCol
}

// QueuePanicKey names the listed dependency finding whose root cause is list.arrayQueue of github.com/moorara/algo
// (an element enqueued after exactly 64*k elements have been enqueued and all dequeued indexes past the block).
const QueuePanicKey = "reindex-queue-panic"

var queueOnce sync.Once

// QueuePanic reports whether a recovered panic belongs to that finding: it is identified by its call site (the
// innermost frames are list.(*arrayQueue).Enqueue / Dequeue of the dependency) and tolerated only while the finding is
// listed; the KNOWN-FINDING line is printed the first time it is met.
func QueuePanic(err error) bool {
	if err == nil || !strings.Contains(err.Error(), "moorara/algo/list.(*arrayQueue") || !Listed(QueuePanicKey) {
		return false
	}
	queueOnce.Do(func() { Announce(QueuePanicKey) })
	Count("excluded_known_queue_panic", 1)
	return true
}
