package ref

// R6: recogniser for the documented pattern grammar (docs/5-definitions.md, "Regular Expression").
// It decides whether the ENTIRE text is a sentence, considering all parses (memoised position sets), so it is
// independent of the ordered-choice strategy of the implementation.  `char` is "all characters" as documented;
// `unescaped_char` is every character except the thirteen that have an escaped form.

var escapable = map[rune]bool{'\\': true, '|': true, '.': true, '?': true, '*': true, '+': true, '(': true, ')': true, '[': true, ']': true, '{': true, '}': true, '$': true}

var asciiClassNames = []string{"[:blank:]", "[:space:]", "[:digit:]", "[:xdigit:]", "[:upper:]", "[:lower:]", "[:alpha:]", "[:alnum:]", "[:word:]", "[:ascii:]"}

var unicodeCategories = []string{"Math", "Emoji", "Latin", "Greek", "Cyrillic", "Han", "Persian",
	"Letter", "Lu", "Ll", "Lt", "Lm", "Lo", "L", "Mark", "Mn", "Mc", "Me", "M", "Number", "Nd", "Nl", "No", "N",
	"Punctuation", "Pc", "Pd", "Ps", "Pe", "Pi", "Pf", "Po", "P", "Separator", "Zs", "Zl", "Zp", "Z", "Symbol", "Sm", "Sc", "Sk", "So", "S"}

type patRec struct {
	s    []rune
	memo map[[2]int][]int
}

// IsPatternSentence reports whether the whole text is a sentence of the documented pattern grammar.
func IsPatternSentence(text string) bool {
	r := &patRec{s: []rune(text), memo: map[[2]int][]int{}}
	for _, e := range r.regex(0) {
		if e == len(r.s) {
			return true
		}
	}
	return false
}

func uniq(xs []int) []int {
	seen := map[int]bool{}
	var out []int
	for _, x := range xs {
		if !seen[x] {
			seen[x] = true
			out = append(out, x)
		}
	}
	return out
}

func (r *patRec) lit(i int, s string) []int {
	rs := []rune(s)
	if i+len(rs) > len(r.s) {
		return nil
	}
	for k, c := range rs {
		if r.s[i+k] != c {
			return nil
		}
	}
	return []int{i + len(rs)}
}

func (r *patRec) memoized(id, i int, f func() []int) []int {
	k := [2]int{id, i}
	if v, ok := r.memo[k]; ok {
		return v
	}
	r.memo[k] = nil // grammar is not left recursive; guards against accidental loops
	v := uniq(f())
	r.memo[k] = v
	return v
}

// regex = [ "^" ] expr
func (r *patRec) regex(i int) []int {
	out := r.expr(i)
	for _, j := range r.lit(i, "^") {
		out = append(out, r.expr(j)...)
	}
	return uniq(out)
}

// expr = subexpr [ "|" expr ]
func (r *patRec) expr(i int) []int {
	return r.memoized(1, i, func() []int {
		var out []int
		for _, j := range r.subexpr(i) {
			out = append(out, j)
			for _, k := range r.lit(j, "|") {
				out = append(out, r.expr(k)...)
			}
		}
		return out
	})
}

// subexpr = {{ subexpr_item }}
func (r *patRec) subexpr(i int) []int {
	return r.memoized(2, i, func() []int {
		var out []int
		frontier := []int{i}
		seen := map[int]bool{}
		for len(frontier) > 0 {
			var next []int
			for _, p := range frontier {
				for _, j := range r.subexprItem(p) {
					if !seen[j] {
						seen[j] = true
						out = append(out, j)
						next = append(next, j)
					}
				}
			}
			frontier = next
		}
		return out
	})
}

// subexpr_item = anchor | group | match
func (r *patRec) subexprItem(i int) []int {
	return r.memoized(3, i, func() []int {
		out := r.lit(i, "$")
		// group = "(" expr ")" [ quantifier ]
		for _, j := range r.lit(i, "(") {
			for _, k := range r.expr(j) {
				for _, l := range r.lit(k, ")") {
					out = append(out, l)
					out = append(out, r.quantifier(l)...)
				}
			}
		}
		// match = match_item [ quantifier ]
		for _, j := range r.matchItem(i) {
			out = append(out, j)
			out = append(out, r.quantifier(j)...)
		}
		return out
	})
}

// quantifier = repetition [ "?" ]; repetition = "?" | "*" | "+" | range; range = "{" num [ "," [ num ] ] "}"
func (r *patRec) quantifier(i int) []int {
	var reps []int
	for _, op := range []string{"?", "*", "+"} {
		reps = append(reps, r.lit(i, op)...)
	}
	for _, j := range r.lit(i, "{") {
		for _, k := range r.num(j) {
			reps = append(reps, r.lit(k, "}")...)
			for _, l := range r.lit(k, ",") {
				reps = append(reps, r.lit(l, "}")...)
				for _, m := range r.num(l) {
					reps = append(reps, r.lit(m, "}")...)
				}
			}
		}
	}
	out := append([]int{}, reps...)
	for _, j := range reps {
		out = append(out, r.lit(j, "?")...)
	}
	return uniq(out)
}

func (r *patRec) num(i int) []int {
	var out []int
	for j := i; j < len(r.s) && r.s[j] >= '0' && r.s[j] <= '9'; j++ {
		out = append(out, j+1)
	}
	return out
}

func (r *patRec) hexRun(i, min, max int) []int {
	var out []int
	n := 0
	for j := i; j < len(r.s) && n < max; j++ {
		c := r.s[j]
		if !((c >= '0' && c <= '9') || (c >= 'A' && c <= 'F')) {
			break
		}
		n++
		if n >= min {
			out = append(out, j+1)
		}
	}
	return out
}

// ascii_char = "\x" hex{2}; unicode_char = "\x" hex{4,8}
func (r *patRec) hexChar(i int) []int {
	var out []int
	for _, j := range r.lit(i, `\x`) {
		out = append(out, r.hexRun(j, 2, 2)...)
		out = append(out, r.hexRun(j, 4, 8)...)
	}
	return uniq(out)
}

// single_char = unicode_char | ascii_char | escaped_char | unescaped_char
func (r *patRec) singleChar(i int) []int {
	out := r.hexChar(i)
	if i < len(r.s) {
		if r.s[i] == '\\' && i+1 < len(r.s) && escapable[r.s[i+1]] {
			out = append(out, i+2)
		}
		if !escapable[r.s[i]] {
			out = append(out, i+1)
		}
	}
	return out
}

func (r *patRec) charClass(i int) []int {
	var out []int
	for _, c := range []string{`\s`, `\S`, `\d`, `\D`, `\w`, `\W`} {
		out = append(out, r.lit(i, c)...)
	}
	return out
}

func (r *patRec) asciiClass(i int) []int {
	var out []int
	for _, c := range asciiClassNames {
		out = append(out, r.lit(i, c)...)
	}
	return out
}

func (r *patRec) unicodeClass(i int) []int {
	var out []int
	for _, p := range []string{`\p{`, `\P{`} {
		for _, j := range r.lit(i, p) {
			for _, c := range unicodeCategories {
				for _, k := range r.lit(j, c) {
					out = append(out, r.lit(k, "}")...)
				}
			}
		}
	}
	return out
}

// match_item = any_char | single_char | char_class | ascii_char_class | unicode_char_class | char_group
func (r *patRec) matchItem(i int) []int {
	return r.memoized(4, i, func() []int {
		out := r.lit(i, ".")
		out = append(out, r.singleChar(i)...)
		out = append(out, r.charClass(i)...)
		out = append(out, r.asciiClass(i)...)
		out = append(out, r.unicodeClass(i)...)
		out = append(out, r.charGroup(i)...)
		return out
	})
}

// char_in_range = unicode_char | ascii_char | char
func (r *patRec) charInRange(i int) []int {
	out := r.hexChar(i)
	if i < len(r.s) {
		out = append(out, i+1)
	}
	return out
}

// char_group_item = unicode_char_class | ascii_char_class | char_class | char_range | single_char
func (r *patRec) charGroupItem(i int) []int {
	out := r.unicodeClass(i)
	out = append(out, r.asciiClass(i)...)
	out = append(out, r.charClass(i)...)
	for _, j := range r.charInRange(i) {
		for _, k := range r.lit(j, "-") {
			out = append(out, r.charInRange(k)...)
		}
	}
	out = append(out, r.singleChar(i)...)
	return uniq(out)
}

// char_group = "[" [ "^" ] {{ char_group_item }} "]"
func (r *patRec) charGroup(i int) []int {
	var out []int
	for _, j := range r.lit(i, "[") {
		starts := []int{j}
		starts = append(starts, r.lit(j, "^")...)
		seen := map[int]bool{}
		frontier := starts
		first := true
		for len(frontier) > 0 {
			var next []int
			for _, p := range frontier {
				for _, q := range r.charGroupItem(p) {
					if !seen[q] {
						seen[q] = true
						next = append(next, q)
						out = append(out, r.lit(q, "]")...)
					}
				}
			}
			frontier = next
			_ = first
		}
	}
	return uniq(out)
}
