package ref

import (
	"fmt"
	"sort"
	"strings"
)

// ---------------------------------------------------------------------------------------------
// R7: reference LR machinery.  Plain grammars, canonical LR(1) item sets merged by core (LALR(1)),
// conflict detection.  Written from the textbook construction; independent of the dependency.
// ---------------------------------------------------------------------------------------------

// GProd is a production of a plain grammar.
type GProd struct {
	Head string   `json:"head"`
	Body []string `json:"body"`
}

// Grammar is a plain context-free grammar; terminals are the names in Terms, the start symbol is "start".
type Grammar struct {
	NTs   []string `json:"nts"`
	Terms []string `json:"terms"`
	Prods []GProd  `json:"prods"` // without the augmenting production
}

func (g *Grammar) isNT(s string) bool {
	if s == "S'" {
		return true
	}
	for _, n := range g.NTs {
		if n == s {
			return true
		}
	}
	return false
}

func (g *Grammar) aug() []GProd {
	return append([]GProd{{Head: "S'", Body: []string{"start"}}}, g.Prods...)
}

func (g *Grammar) first(prods []GProd) map[string]map[string]bool {
	f := map[string]map[string]bool{"S'": {}}
	for _, n := range g.NTs {
		f[n] = map[string]bool{}
	}
	for changed := true; changed; {
		changed = false
		for _, p := range prods {
			allNullable := true
			for _, s := range p.Body {
				if !g.isNT(s) {
					if !f[p.Head][s] {
						f[p.Head][s] = true
						changed = true
					}
					allNullable = false
					break
				}
				for t := range f[s] {
					if t != "" && !f[p.Head][t] {
						f[p.Head][t] = true
						changed = true
					}
				}
				if !f[s][""] {
					allNullable = false
					break
				}
			}
			if allNullable && !f[p.Head][""] {
				f[p.Head][""] = true
				changed = true
			}
		}
	}
	return f
}

type lrItem struct {
	p, dot int
	la     string
}

type lrCtx struct {
	g     *Grammar
	prods []GProd
	f     map[string]map[string]bool
}

func (c *lrCtx) firstOfSeq(seq []string, la string) []string {
	out := map[string]bool{}
	nullable := true
	for _, s := range seq {
		if !c.g.isNT(s) {
			out[s] = true
			nullable = false
			break
		}
		for t := range c.f[s] {
			if t != "" {
				out[t] = true
			}
		}
		if !c.f[s][""] {
			nullable = false
			break
		}
	}
	if nullable {
		out[la] = true
	}
	r := make([]string, 0, len(out))
	for t := range out {
		r = append(r, t)
	}
	sort.Strings(r)
	return r
}

func (c *lrCtx) closure(items map[lrItem]bool) map[lrItem]bool {
	work := make([]lrItem, 0, len(items))
	for it := range items {
		work = append(work, it)
	}
	for len(work) > 0 {
		it := work[len(work)-1]
		work = work[:len(work)-1]
		body := c.prods[it.p].Body
		if it.dot >= len(body) || !c.g.isNT(body[it.dot]) {
			continue
		}
		B := body[it.dot]
		las := c.firstOfSeq(body[it.dot+1:], it.la)
		for pi, p := range c.prods {
			if p.Head != B {
				continue
			}
			for _, la := range las {
				n := lrItem{pi, 0, la}
				if !items[n] {
					items[n] = true
					work = append(work, n)
				}
			}
		}
	}
	return items
}

func itemsKey(items map[lrItem]bool, core bool) string {
	ks := make([]string, 0, len(items))
	for it := range items {
		if core {
			ks = append(ks, fmt.Sprintf("%d.%d", it.p, it.dot))
		} else {
			ks = append(ks, fmt.Sprintf("%d.%d.%s", it.p, it.dot, it.la))
		}
	}
	sort.Strings(ks)
	out := ks[:0]
	for i, k := range ks {
		if i == 0 || k != ks[i-1] {
			out = append(out, k)
		}
	}
	return strings.Join(out, " ")
}

// Conflict describes one conflicting table entry of the reference construction.
type Conflict struct {
	Terminal string
	Actions  []string
}

// Classify builds the canonical LR(1) collection, merges states with equal cores and reports whether the
// LALR(1) table and the canonical LR(1) table are free of conflicts, with the LALR(1) conflicts found.
func (g *Grammar) Classify() (lalr, lr1 bool, conflicts []Conflict, ok bool) {
	c := &lrCtx{g: g, prods: g.aug()}
	c.f = g.first(c.prods)
	start := c.closure(map[lrItem]bool{{0, 0, "$"}: true})
	states := []map[lrItem]bool{start}
	index := map[string]int{itemsKey(start, false): 0}
	for i := 0; i < len(states); i++ {
		if len(states) > 4000 {
			return false, false, nil, false
		}
		bySym := map[string]map[lrItem]bool{}
		for it := range states[i] {
			body := c.prods[it.p].Body
			if it.dot < len(body) {
				s := body[it.dot]
				if bySym[s] == nil {
					bySym[s] = map[lrItem]bool{}
				}
				bySym[s][lrItem{it.p, it.dot + 1, it.la}] = true
			}
		}
		for _, kernel := range bySym {
			ns := c.closure(kernel)
			k := itemsKey(ns, false)
			if _, seen := index[k]; !seen {
				index[k] = len(states)
				states = append(states, ns)
			}
		}
	}
	conflictsOf := func(sets []map[lrItem]bool) []Conflict {
		var out []Conflict
		for _, st := range sets {
			act := map[string]map[string]bool{}
			for it := range st {
				body := c.prods[it.p].Body
				var a, what string
				if it.dot < len(body) {
					if g.isNT(body[it.dot]) {
						continue
					}
					a, what = body[it.dot], "shift"
				} else if it.p == 0 {
					a, what = "$", "accept"
				} else {
					a, what = it.la, fmt.Sprintf("reduce %s -> %s", c.prods[it.p].Head, strings.Join(c.prods[it.p].Body, " "))
				}
				if act[a] == nil {
					act[a] = map[string]bool{}
				}
				act[a][what] = true
			}
			for a, ws := range act {
				if len(ws) > 1 {
					cf := Conflict{Terminal: a}
					for w := range ws {
						cf.Actions = append(cf.Actions, w)
					}
					sort.Strings(cf.Actions)
					out = append(out, cf)
				}
			}
		}
		return out
	}
	lr1 = len(conflictsOf(states)) == 0
	merged := map[string]map[lrItem]bool{}
	for _, st := range states {
		k := itemsKey(st, true)
		if merged[k] == nil {
			merged[k] = map[lrItem]bool{}
		}
		for it := range st {
			merged[k][it] = true
		}
	}
	keys := make([]string, 0, len(merged))
	for k := range merged {
		keys = append(keys, k)
	}
	sort.Strings(keys)
	ms := make([]map[lrItem]bool, 0, len(merged))
	for _, k := range keys {
		ms = append(ms, merged[k])
	}
	conflicts = conflictsOf(ms)
	return len(conflicts) == 0, lr1, conflicts, true
}

// Reduced reports whether every non-terminal is productive and reachable from start.
func (g *Grammar) Reduced() bool {
	prods := g.aug()
	prodv := map[string]bool{}
	for changed := true; changed; {
		changed = false
		for _, p := range prods {
			if prodv[p.Head] {
				continue
			}
			ok := true
			for _, s := range p.Body {
				if g.isNT(s) && !prodv[s] {
					ok = false
				}
			}
			if ok {
				prodv[p.Head] = true
				changed = true
			}
		}
	}
	reach := map[string]bool{"S'": true}
	for changed := true; changed; {
		changed = false
		for _, p := range prods {
			if reach[p.Head] {
				for _, s := range p.Body {
					if g.isNT(s) && !reach[s] {
						reach[s] = true
						changed = true
					}
				}
			}
		}
	}
	for _, n := range g.NTs {
		if !prodv[n] || !reach[n] {
			return false
		}
	}
	return true
}

// Cyclic reports whether some non-terminal derives itself (A =>+ A).
func (g *Grammar) Cyclic() bool {
	prods := g.aug()
	f := g.first(prods)
	nullable := func(seq []string) bool {
		for _, s := range seq {
			if !g.isNT(s) || !f[s][""] {
				return false
			}
		}
		return true
	}
	rel := map[string]map[string]bool{}
	for _, p := range prods[1:] {
		for i, s := range p.Body {
			if g.isNT(s) && nullable(p.Body[:i]) && nullable(p.Body[i+1:]) {
				if rel[p.Head] == nil {
					rel[p.Head] = map[string]bool{}
				}
				rel[p.Head][s] = true
			}
		}
	}
	for changed := true; changed; {
		changed = false
		for a, bs := range rel {
			for b := range bs {
				for cc := range rel[b] {
					if !rel[a][cc] {
						rel[a][cc] = true
						changed = true
					}
				}
			}
		}
	}
	for a, bs := range rel {
		if bs[a] {
			return true
		}
	}
	return false
}

// Text prints the grammar as an EBNF specification in plain BNF style (one rule per non-terminal, empty
// alternatives last).
func (g *Grammar) Text(directives string) string {
	var b strings.Builder
	b.WriteString("grammar g;\n")
	b.WriteString(directives)
	for _, n := range g.NTs {
		var alts []string
		for _, p := range g.Prods {
			if p.Head != n {
				continue
			}
			var ss []string
			for _, s := range p.Body {
				if g.isNT(s) {
					ss = append(ss, s)
				} else {
					ss = append(ss, `"`+s+`"`)
				}
			}
			alts = append(alts, strings.Join(ss, " "))
		}
		sort.SliceStable(alts, func(i, j int) bool { return alts[i] != "" && alts[j] == "" })
		fmt.Fprintf(&b, "%s = %s;\n", n, strings.Join(alts, " | "))
	}
	return b.String()
}

// CFG converts the grammar for the bounded language evaluator.
func (g *Grammar) CFG() []CFGProduction {
	var out []CFGProduction
	for _, p := range g.Prods {
		cp := CFGProduction{Head: p.Head}
		for _, s := range p.Body {
			if g.isNT(s) {
				cp.Body = append(cp.Body, "n:"+s)
			} else {
				cp.Body = append(cp.Body, "t:"+s)
			}
		}
		out = append(out, cp)
	}
	return out
}

// AllStrings enumerates every terminal string of at most n terminals.
func AllStrings(terms []string, n int) [][]string {
	out := [][]string{{}}
	frontier := [][]string{{}}
	for l := 1; l <= n; l++ {
		var next [][]string
		for _, w := range frontier {
			for _, t := range terms {
				nw := append(append([]string{}, w...), t)
				next = append(next, nw)
			}
		}
		out = append(out, next...)
		frontier = next
	}
	return out
}

// Word encodes a terminal string as a Lang key.
func Word(w []string) string { return strings.Join(w, sep) }

// ---------------------------------------------------------------------------------------------
// R8: precedence-climbing (Pratt) parser for operator grammars
//     e = e op e | pre e | "(" e ")" | atom
// Levels are numbered by tightness: a larger number binds tighter.
// ---------------------------------------------------------------------------------------------

// OpInfo is the declared precedence of an operator.
type OpInfo struct {
	Prec  int  // larger = binds tighter
	Right bool // right associative
}

// ExprTree is an expression tree rendered as a fully parenthesised string.
type exprParser struct {
	toks   []string
	i      int
	binary map[string]OpInfo
	prefix map[string]OpInfo
	atoms  map[string]bool
	bad    bool
}

func (p *exprParser) peek() string {
	if p.i < len(p.toks) {
		return p.toks[p.i]
	}
	return "$"
}

func (p *exprParser) expr(minPrec int) string {
	var left string
	t := p.peek()
	switch {
	case p.atoms[t]:
		p.i++
		left = t
	case t == "(":
		p.i++
		inner := p.expr(0)
		if p.peek() != ")" {
			p.bad = true
			return ""
		}
		p.i++
		left = "(" + inner + ")"
	default:
		if info, ok := p.prefix[t]; ok {
			p.i++
			// yacc semantics: after 'pre e' a following operator is shifted iff it binds tighter than pre,
			// or equally tight and the level is right associative
			next := info.Prec + 1
			if info.Right {
				next = info.Prec
			}
			operand := p.expr(next)
			left = "[" + t + " " + operand + "]"
		} else {
			p.bad = true
			return ""
		}
	}
	for !p.bad {
		op := p.peek()
		info, ok := p.binary[op]
		if !ok || info.Prec < minPrec {
			break
		}
		p.i++
		next := info.Prec + 1
		if info.Right {
			next = info.Prec
		}
		right := p.expr(next)
		left = "[" + left + " " + op + " " + right + "]"
	}
	return left
}

// ParseExpr parses an operator expression; ok is false for strings outside the expression language.
func ParseExpr(toks []string, binary, prefix map[string]OpInfo, atoms []string) (tree string, ok bool) {
	p := &exprParser{toks: toks, binary: binary, prefix: prefix, atoms: map[string]bool{}}
	for _, a := range atoms {
		p.atoms[a] = true
	}
	t := p.expr(0)
	if p.bad || p.i != len(toks) {
		return "", false
	}
	return t, true
}

// KernelSubsetHazard reports whether the LR(0) kernel of one state of the grammar's automaton is a proper
// subset of the kernel of another state.  (The listed dependency finding 'lalr-kernel-superset' can only
// strike for such grammars: the dependency looks a transition target up by kernel-superset search.)
func (g *Grammar) KernelSubsetHazard() bool {
	prods := g.aug()
	type it struct{ p, dot int }
	closure := func(k map[it]bool) map[it]bool {
		items := map[it]bool{}
		var work []it
		for x := range k {
			items[x] = true
			work = append(work, x)
		}
		for len(work) > 0 {
			x := work[len(work)-1]
			work = work[:len(work)-1]
			body := prods[x.p].Body
			if x.dot < len(body) && g.isNT(body[x.dot]) {
				for pi, p := range prods {
					if p.Head == body[x.dot] {
						n := it{pi, 0}
						if !items[n] {
							items[n] = true
							work = append(work, n)
						}
					}
				}
			}
		}
		return items
	}
	key := func(k map[it]bool) string {
		ks := make([]string, 0, len(k))
		for x := range k {
			ks = append(ks, fmt.Sprintf("%d.%d", x.p, x.dot))
		}
		sort.Strings(ks)
		return strings.Join(ks, " ")
	}
	start := map[it]bool{{0, 0}: true}
	kernels := []map[it]bool{start}
	seen := map[string]bool{key(start): true}
	for i := 0; i < len(kernels) && len(kernels) < 2000; i++ {
		bySym := map[string]map[it]bool{}
		for x := range closure(kernels[i]) {
			body := prods[x.p].Body
			if x.dot < len(body) {
				s := body[x.dot]
				if bySym[s] == nil {
					bySym[s] = map[it]bool{}
				}
				bySym[s][it{x.p, x.dot + 1}] = true
			}
		}
		for _, k := range bySym {
			if kk := key(k); !seen[kk] {
				seen[kk] = true
				kernels = append(kernels, k)
			}
		}
	}
	for i, a := range kernels {
		for j, b := range kernels {
			if i == j || len(a) >= len(b) {
				continue
			}
			sub := true
			for x := range a {
				if !b[x] {
					sub = false
					break
				}
			}
			if sub {
				return true
			}
		}
	}
	return false
}

// HasUnproductive reports whether some non-terminal derives no terminal string at all.
func (g *Grammar) HasUnproductive() bool {
	prodv := map[string]bool{}
	for changed := true; changed; {
		changed = false
		for _, p := range g.Prods {
			if prodv[p.Head] {
				continue
			}
			ok := true
			for _, s := range p.Body {
				if g.isNT(s) && !prodv[s] {
					ok = false
				}
			}
			if ok {
				prodv[p.Head] = true
				changed = true
			}
		}
	}
	for _, n := range g.NTs {
		if !prodv[n] {
			return true
		}
	}
	return false
}
