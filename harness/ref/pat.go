// Package ref holds the reference models (oracles) of the harness.  They are written from emerge's
// documentation and do not call emerge code (only the automata/grammar data types of the dependency
// appear at the edges, where an implementation result is inspected through its public accessors).
package ref

import (
	"fmt"
	"sort"
	"strings"

	auto "github.com/moorara/algo/automata"
)

// Pat is the model of a pattern of the documented pattern language (R5).
type Pat struct {
	K     string // lit any cls posix br grp cat alt q
	R     rune   // lit; rng low
	R2    rune   // rng high
	Spell int    // lit spelling: 0 canonical, 2 \xHH, 4..8 \x with that many hexadecimal digits
	Name  string // cls / posix name
	Neg   bool   // br
	Items []*Pat // br: lit, rng, cls, posix
	Subs  []*Pat
	Min   int
	Max   int // -1 = unbounded
	QForm string
	Lazy  bool
}

const metaChars = `\|.?*+()[]{}$`

func isHex(c byte) bool { return (c >= '0' && c <= '9') || (c >= 'A' && c <= 'F') }

// atom is a printed piece; hexTail says the piece ends in a variable-length \x escape (2 or 4 digits),
// which must not be followed by a hexadecimal digit.
type atom struct {
	text  string
	r     rune
	short int // 0: no short escape; 2, 4..7: text is an escape of r with fewer than eight digits
}

func litAtom(r rune, spell int, inBracket bool) atom {
	esc := func(n int) atom {
		switch {
		case n == 2 && r <= 0xFF:
			return atom{fmt.Sprintf(`\x%02X`, r), r, 2}
		case n == 4 && r <= 0xFFFF:
			return atom{fmt.Sprintf(`\x%04X`, r), r, 4}
		case n >= 5 && n <= 7 && int64(r) < int64(1)<<(4*uint(n)):
			return atom{fmt.Sprintf(`\x%0*X`, n, r), r, n}
		}
		return atom{fmt.Sprintf(`\x%08X`, r), r, 0}
	}
	if spell == 1 {
		return atom{string(r), r, 0} // the character itself (the caller knows that it is unambiguous where it stands)
	}
	if spell != 0 {
		return esc(spell)
	}
	if r < 0x20 || r > 0x7E {
		return esc(4)
	}
	if inBracket {
		// inside brackets only alphanumerics, '_' and ' ' are written raw
		if (r >= '0' && r <= '9') || (r >= 'A' && r <= 'Z') || (r >= 'a' && r <= 'z') || r == '_' || r == ' ' {
			return atom{string(r), r, 0}
		}
		return esc(2)
	}
	if r == '-' || r == '^' || r == '/' {
		// '-' after a bracket group is read as a range, '^' at the start as the anchor, '/' ends a pattern in a spec
		return esc(2)
	}
	if strings.ContainsRune(metaChars, r) {
		return atom{`\` + string(r), r, 0}
	}
	return atom{string(r), r, 0}
}

// rangeAtomSpelled writes an end point of a range with the given number of hexadecimal digits when it fits.
func rangeAtomSpelled(r rune, spell int) atom {
	if spell == 2 && r <= 0xFF {
		return atom{fmt.Sprintf(`\x%02X`, r), r, 2}
	}
	if spell >= 4 && spell <= 8 && int64(r) < int64(1)<<(4*uint(spell)) {
		short := spell
		if spell == 8 {
			short = 0
		}
		return atom{fmt.Sprintf(`\x%0*X`, spell, r), r, short}
	}
	return rangeAtom(r)
}

func rangeAtom(r rune) atom {
	if (r >= '0' && r <= '9') || (r >= 'A' && r <= 'Z') || (r >= 'a' && r <= 'z') {
		return atom{string(r), r, 0}
	}
	if r <= 0xFF {
		return atom{fmt.Sprintf(`\x%02X`, r), r, 2}
	}
	if r <= 0xFFFF {
		return atom{fmt.Sprintf(`\x%04X`, r), r, 4}
	}
	return atom{fmt.Sprintf(`\x%08X`, r), r, 0}
}

func (p *Pat) atoms(out *[]atom) {
	raw := func(s string) { *out = append(*out, atom{text: s}) }
	switch p.K {
	case "lit":
		*out = append(*out, litAtom(p.R, p.Spell, false))
	case "any":
		raw(".")
	case "cls", "posix", "uni":
		raw(p.Name)
	case "br":
		raw("[")
		if p.Neg {
			raw("^")
		}
		for _, it := range p.Items {
			switch it.K {
			case "lit":
				*out = append(*out, litAtom(it.R, it.Spell, true))
			case "rng":
				*out = append(*out, rangeAtomSpelled(it.R, it.Spell))
				raw("-")
				*out = append(*out, rangeAtomSpelled(it.R2, it.Spell))
			default:
				raw(it.Name)
			}
		}
		raw("]")
	case "grp":
		raw("(")
		p.Subs[0].atoms(out)
		raw(")")
	case "cat":
		for _, s := range p.Subs {
			s.atoms(out)
		}
	case "alt":
		for i, s := range p.Subs {
			if i > 0 {
				raw("|")
			}
			s.atoms(out)
		}
	case "q":
		p.Subs[0].atoms(out)
		raw(p.QForm)
		if p.Lazy {
			raw("?")
		}
	default:
		panic("bad pattern kind " + p.K)
	}
}

// String prints the pattern in an unambiguous spelling accepted by the documented grammar.
func (p *Pat) String() string {
	var as []atom
	p.atoms(&as)
	var b strings.Builder
	for i, a := range as {
		t := a.text
		if a.short != 0 {
			// an escape of fewer than eight digits followed by a hexadecimal digit would be read as a longer escape
			next := ""
			for j := i + 1; j < len(as) && next == ""; j++ {
				next = as[j].text
			}
			if next != "" && isHex(next[0]) {
				t = fmt.Sprintf(`\x%08X`, a.r)
			}
		}
		b.WriteString(t)
	}
	return b.String()
}

// Size is the number of nodes of the pattern tree.
func (p *Pat) Size() int {
	n := 1
	for _, s := range p.Subs {
		n += s.Size()
	}
	return n + len(p.Items)
}

// Walk visits every node.
func (p *Pat) Walk(f func(*Pat)) {
	f(p)
	for _, s := range p.Items {
		s.Walk(f)
	}
	for _, s := range p.Subs {
		s.Walk(f)
	}
}

// ---------- reference semantics ----------

// RuneSet is a set of code points.
type RuneSet map[rune]bool

// ClassSet is the documented meaning of a character class / POSIX class (negations relative to ASCII).
func ClassSet(name string) RuneSet {
	s := RuneSet{}
	add := func(lo, hi rune) {
		for r := lo; r <= hi; r++ {
			s[r] = true
		}
	}
	neg := false
	switch name {
	case `\d`, `[:digit:]`:
		add('0', '9')
	case `\D`:
		add('0', '9')
		neg = true
	case `\s`, `\S`:
		for _, r := range " \t\n\r\f" {
			s[r] = true
		}
		neg = name == `\S`
	case `\w`, `[:word:]`, `\W`:
		add('0', '9')
		add('A', 'Z')
		add('a', 'z')
		s['_'] = true
		neg = name == `\W`
	case `[:blank:]`:
		s[' '], s['\t'] = true, true
	case `[:space:]`:
		for _, r := range " \t\n\r\f\v" {
			s[r] = true
		}
	case `[:xdigit:]`:
		add('0', '9')
		add('A', 'F')
		add('a', 'f')
	case `[:upper:]`:
		add('A', 'Z')
	case `[:lower:]`:
		add('a', 'z')
	case `[:alpha:]`:
		add('A', 'Z')
		add('a', 'z')
	case `[:alnum:]`:
		add('0', '9')
		add('A', 'Z')
		add('a', 'z')
	case `[:ascii:]`:
		add(0, 0x7F)
	default:
		panic("unknown class " + name)
	}
	if neg {
		return NegASCII(s)
	}
	return s
}

// NegASCII is the complement relative to the ASCII table, as documented for '.', negated classes and groups.
func NegASCII(s RuneSet) RuneSet {
	o := RuneSet{}
	for r := rune(0); r <= 0x7F; r++ {
		if !s[r] {
			o[r] = true
		}
	}
	return o
}

type rnfa struct {
	n      int
	eps    [][]int
	trans  []map[rune][]int
	nulEps bool
	nulHit bool
}

func (a *rnfa) st() int {
	a.n++
	a.eps = append(a.eps, nil)
	a.trans = append(a.trans, map[rune][]int{})
	return a.n - 1
}

func (a *rnfa) sym(s RuneSet) (int, int) {
	x, y := a.st(), a.st()
	if s[0] {
		a.nulHit = true
		if a.nulEps {
			// bug-compatible mode for the listed NUL/epsilon finding: a set containing code point 0 also matches ε
			a.eps[x] = append(a.eps[x], y)
		}
	}
	for r := range s {
		a.trans[x][r] = append(a.trans[x][r], y)
	}
	return x, y
}

// SetOf is the rune set of a single-character pattern node.
func SetOf(p *Pat) RuneSet {
	switch p.K {
	case "lit":
		return RuneSet{p.R: true}
	case "any":
		return NegASCII(RuneSet{})
	case "cls", "posix":
		return ClassSet(p.Name)
	case "br":
		s := RuneSet{}
		for _, it := range p.Items {
			switch it.K {
			case "lit":
				s[it.R] = true
			case "rng":
				for r := it.R; r <= it.R2; r++ {
					s[r] = true
				}
			default:
				for r := range ClassSet(it.Name) {
					s[r] = true
				}
			}
		}
		if p.Neg {
			s = NegASCII(s)
		}
		return s
	}
	return nil
}

func (a *rnfa) build(p *Pat) (int, int) {
	switch p.K {
	case "lit", "any", "cls", "posix", "br":
		return a.sym(SetOf(p))
	case "grp":
		return a.build(p.Subs[0])
	case "cat":
		s, e := a.build(p.Subs[0])
		for _, q := range p.Subs[1:] {
			s2, e2 := a.build(q)
			a.eps[e] = append(a.eps[e], s2)
			e = e2
		}
		return s, e
	case "alt":
		s, e := a.st(), a.st()
		for _, q := range p.Subs {
			s2, e2 := a.build(q)
			a.eps[s] = append(a.eps[s], s2)
			a.eps[e2] = append(a.eps[e2], e)
		}
		return s, e
	case "q":
		s, e := a.st(), a.st()
		cur := s
		for i := 0; i < p.Min; i++ {
			s2, e2 := a.build(p.Subs[0])
			a.eps[cur] = append(a.eps[cur], s2)
			cur = e2
		}
		if p.Max < 0 {
			s2, e2 := a.build(p.Subs[0])
			a.eps[cur] = append(a.eps[cur], s2, e)
			a.eps[e2] = append(a.eps[e2], s2, e)
		} else {
			a.eps[cur] = append(a.eps[cur], e)
			for i := p.Min; i < p.Max; i++ {
				s2, e2 := a.build(p.Subs[0])
				a.eps[cur] = append(a.eps[cur], s2)
				a.eps[e2] = append(a.eps[e2], e)
				cur = e2
			}
		}
		return s, e
	}
	panic("bad pattern kind " + p.K)
}

func (a *rnfa) closure(ss []int) []int {
	seen := map[int]bool{}
	var stack []int
	for _, s := range ss {
		if !seen[s] {
			seen[s] = true
			stack = append(stack, s)
		}
	}
	for len(stack) > 0 {
		s := stack[len(stack)-1]
		stack = stack[:len(stack)-1]
		for _, t := range a.eps[s] {
			if !seen[t] {
				seen[t] = true
				stack = append(stack, t)
			}
		}
	}
	out := make([]int, 0, len(seen))
	for s := range seen {
		out = append(out, s)
	}
	sort.Ints(out)
	return out
}

// RefDFA is the lazily determinised reference automaton of a pattern (or of a literal).
type RefDFA struct {
	a      *rnfa
	final  int
	ids    map[string]int
	sets   [][]int
	cache  map[int64]int
	extra  []rune // code points of the pattern outside of the base universe
	NulHit bool   // some character set of the pattern contains code point 0
}

// NewRef builds the reference automaton.  nulEps selects the bug-compatible reading of the listed NUL/ε finding.
func NewRef(p *Pat, nulEps bool) *RefDFA {
	a := &rnfa{nulEps: nulEps}
	s, e := a.build(p)
	d := &RefDFA{a: a, final: e, ids: map[string]int{}, NulHit: a.nulHit}
	seen := map[rune]bool{}
	for _, m := range a.trans {
		for r := range m {
			if r > 0x7F && !seen[r] {
				seen[r] = true
				d.extra = append(d.extra, r)
			}
		}
	}
	sort.Slice(d.extra, func(i, j int) bool { return d.extra[i] < d.extra[j] })
	d.id(a.closure([]int{s}))
	return d
}

// NewRefString is the reference automaton of a string of characters (a literal's denotation).
func NewRefString(rs []rune) *RefDFA {
	p := &Pat{K: "cat"}
	for _, r := range rs {
		p.Subs = append(p.Subs, &Pat{K: "lit", R: r})
	}
	if len(rs) == 1 {
		p = p.Subs[0]
	}
	if len(rs) == 0 {
		p = &Pat{K: "q", Subs: []*Pat{{K: "lit", R: 'x'}}, Min: 0, Max: 0}
	}
	return NewRef(p, false)
}

func (d *RefDFA) id(ss []int) int {
	k := fmt.Sprint(ss)
	if i, ok := d.ids[k]; ok {
		return i
	}
	d.ids[k] = len(d.sets)
	d.sets = append(d.sets, ss)
	return len(d.sets) - 1
}

// Start is the start state.
func (d *RefDFA) Start() int { return 0 }

// Next is the transition function (total: the empty set is the dead state).
func (d *RefDFA) Next(s int, r rune) int {
	key := int64(s)<<22 | int64(r)
	if d.cache == nil {
		d.cache = map[int64]int{}
	}
	if n, ok := d.cache[key]; ok {
		return n
	}
	n := d.next(s, r)
	d.cache[key] = n
	return n
}

func (d *RefDFA) next(s int, r rune) int {
	var nx []int
	for _, q := range d.sets[s] {
		nx = append(nx, d.a.trans[q][r]...)
	}
	return d.id(d.a.closure(nx))
}

// Accepting reports whether s is accepting.
func (d *RefDFA) Accepting(s int) bool {
	for _, q := range d.sets[s] {
		if q == d.final {
			return true
		}
	}
	return false
}

// Dead reports whether s is the dead state.
func (d *RefDFA) Dead(s int) bool { return len(d.sets[s]) == 0 }

// Extra returns the non-ASCII code points the pattern mentions.
func (d *RefDFA) Extra() []rune { return d.extra }

// Matches runs the reference on a whole string.
func (d *RefDFA) Matches(w []rune) bool {
	s := 0
	for _, r := range w {
		s = d.Next(s, r)
	}
	return d.Accepting(s)
}

// BaseUniverse is 7-bit ASCII without NUL plus one fresh code point that no pattern mentions.
func BaseUniverse() []rune {
	u := make([]rune, 0, 130)
	for r := rune(1); r <= 0x7F; r++ {
		u = append(u, r)
	}
	return append(u, 0xF8FF)
}

// Alphabet returns the comparison alphabet: base universe, the reference's code points and the symbols of the
// implementation automata (NUL excluded: the property quantifies over strings without NUL).
func Alphabet(refs []*RefDFA, ds ...*auto.DFA) []rune {
	seen := map[rune]bool{}
	var out []rune
	add := func(r rune) {
		if r != 0 && !seen[r] {
			seen[r] = true
			out = append(out, r)
		}
	}
	for _, r := range BaseUniverse() {
		add(r)
	}
	for _, rf := range refs {
		for _, r := range rf.extra {
			add(r)
		}
	}
	for _, d := range ds {
		if d == nil {
			continue
		}
		for _, a := range d.Symbols() {
			add(rune(a))
		}
	}
	return out
}

// Diff explores the product of the reference and an implementation DFA breadth first and returns a shortest
// string on which they disagree (full language equality, no sampling).
func Diff(ref *RefDFA, d *auto.DFA) (witness string, differs bool) {
	type pair struct {
		r int
		s auto.State
	}
	alpha := Alphabet([]*RefDFA{ref}, d)
	start := pair{0, d.Start}
	seen := map[pair]string{start: ""}
	queue := []pair{start}
	for len(queue) > 0 {
		p := queue[0]
		queue = queue[1:]
		w := seen[p]
		accD := p.s >= 0 && d.Final.Contains(p.s)
		if ref.Accepting(p.r) != accD {
			return w, true
		}
		for _, r := range alpha {
			nr := ref.Next(p.r, r)
			ns := auto.State(-1)
			if p.s >= 0 {
				ns = d.Next(p.s, auto.Symbol(r))
			}
			if ref.Dead(nr) && ns < 0 {
				continue
			}
			np := pair{nr, ns}
			if _, ok := seen[np]; !ok {
				seen[np] = w + string(r)
				queue = append(queue, np)
			}
		}
	}
	return "", false
}

// DiffDFA compares two implementation automata (used where no reference semantics is claimed).
func DiffDFA(d1, d2 *auto.DFA) (string, bool) {
	type pair struct{ a, b auto.State }
	seenSym := map[rune]bool{}
	var alpha []rune
	for _, d := range []*auto.DFA{d1, d2} {
		for _, a := range d.Symbols() {
			if a != 0 && !seenSym[rune(a)] {
				seenSym[rune(a)] = true
				alpha = append(alpha, rune(a))
			}
		}
	}
	sort.Slice(alpha, func(i, j int) bool { return alpha[i] < alpha[j] })
	start := pair{d1.Start, d2.Start}
	seen := map[pair]string{start: ""}
	queue := []pair{start}
	for len(queue) > 0 {
		p := queue[0]
		queue = queue[1:]
		w := seen[p]
		a1 := p.a >= 0 && d1.Final.Contains(p.a)
		a2 := p.b >= 0 && d2.Final.Contains(p.b)
		if a1 != a2 {
			return w, true
		}
		for _, r := range alpha {
			na, nb := auto.State(-1), auto.State(-1)
			if p.a >= 0 {
				na = d1.Next(p.a, auto.Symbol(r))
			}
			if p.b >= 0 {
				nb = d2.Next(p.b, auto.Symbol(r))
			}
			if na < 0 && nb < 0 {
				continue
			}
			np := pair{na, nb}
			if _, ok := seen[np]; !ok {
				seen[np] = w + string(r)
				queue = append(queue, np)
			}
		}
	}
	return "", false
}

// Positions is the number of character positions the followpos construction creates for the pattern
// (every member of a character set is one position, quantifier ranges duplicate their operand).
func Positions(p *Pat) int {
	switch p.K {
	case "lit", "any", "cls", "posix", "br":
		return len(SetOf(p))
	case "uni":
		return 700
	case "q":
		n := p.Min
		if p.Max < 0 {
			n++
		} else {
			n += p.Max - p.Min
		}
		return n * Positions(p.Subs[0])
	}
	n := 0
	for _, s := range p.Subs {
		n += Positions(s)
	}
	return n
}

// LimitPositions replaces large character sets by a literal until the pattern has at most max positions
// (a deterministic size bound for the quadratic followpos construction; the structure of the pattern is kept).
func LimitPositions(p *Pat, max int) int {
	replaced := 0
	for Positions(p) > max {
		var big *Pat
		bigN := 1
		p.Walk(func(q *Pat) {
			switch q.K {
			case "any", "cls", "posix", "br", "uni":
				n := 700
				if q.K != "uni" {
					n = len(SetOf(q))
				}
				if n > bigN {
					big, bigN = q, n
				}
			}
		})
		if big == nil {
			break
		}
		*big = Pat{K: "lit", R: 'a'}
		replaced++
	}
	return replaced
}

// WalkAtoms visits the pattern's nodes without descending into bracket items.
func (p *Pat) WalkAtoms(f func(*Pat)) {
	f(p)
	for _, s := range p.Subs {
		s.WalkAtoms(f)
	}
}
