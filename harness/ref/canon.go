package ref

import (
	"fmt"
	"strconv"
	"strings"
)

// CNode is the canonical form of a right-hand side as the typed tree is documented to present it: concatenations and
// alternations flattened, grouping parentheses transparent.  Tok is the index of the token that gives the node its
// position (leaf: the leaf's token; Opt/Star/Plus: the opening bracket), -1 where a node has no own position.
type CNode struct {
	K    string   `json:"k"` // T N Concat Alt Opt Star Plus Empty
	Name string   `json:"name,omitempty"`
	Tok  int      `json:"tok"`
	Kids []*CNode `json:"kids,omitempty"`
}

// CDecl is the canonical form of a declaration.
type CDecl struct {
	Kind    string    `json:"kind"` // strtoken regextoken directive rule
	Name    string    `json:"name,omitempty"`
	Value   string    `json:"value,omitempty"`
	Assoc   string    `json:"assoc,omitempty"`
	Tok     int       `json:"tok"`
	RHS     *CNode    `json:"rhs,omitempty"`
	Handles []*CDecl  `json:"handles,omitempty"` // Kind: termhandle (Name) | rulehandle (Name, RHS)
}

// CSpec is the canonical form of a specification.
type CSpec struct {
	Name  string   `json:"name"`
	Tok   int      `json:"tok"`
	Decls []*CDecl `json:"decls"`
}

func canonRHS(r *RHS, idx *int) *CNode {
	switch r.K {
	case "str":
		n := &CNode{K: "T", Name: strconv.Quote(r.Name), Tok: *idx}
		*idx++
		return n
	case "tok":
		n := &CNode{K: "T", Name: r.Name, Tok: *idx}
		*idx++
		return n
	case "nt":
		n := &CNode{K: "N", Name: r.Name, Tok: *idx}
		*idx++
		return n
	case "empty":
		return &CNode{K: "Empty", Tok: -1}
	case "grp":
		*idx++ // (
		n := canonRHS(r.Subs[0], idx)
		*idx++ // )
		return n
	case "opt", "star", "plus":
		n := &CNode{K: map[string]string{"opt": "Opt", "star": "Star", "plus": "Plus"}[r.K], Tok: *idx}
		*idx++
		n.Kids = []*CNode{canonRHS(r.Subs[0], idx)}
		*idx++
		return n
	case "cat":
		n := &CNode{K: "Concat", Tok: -1}
		for _, s := range r.Subs {
			c := canonRHS(s, idx)
			if c.K == "Concat" {
				n.Kids = append(n.Kids, c.Kids...)
			} else {
				n.Kids = append(n.Kids, c)
			}
		}
		return n
	case "alt":
		n := &CNode{K: "Alt", Tok: -1}
		for i, s := range r.Subs {
			if i > 0 {
				*idx++ // |
			}
			c := canonRHS(s, idx)
			if c.K == "Alt" {
				n.Kids = append(n.Kids, c.Kids...)
			} else {
				n.Kids = append(n.Kids, c)
			}
		}
		return n
	}
	panic("bad rhs kind " + r.K)
}

func canonRule(d *Decl, idx *int, kind string) *CDecl {
	c := &CDecl{Kind: kind, Name: d.Name, Tok: *idx}
	*idx += 2 // IDENT =
	if d.RHS != nil {
		c.RHS = canonRHS(d.RHS, idx)
	} else {
		c.RHS = &CNode{K: "Empty", Tok: -1}
	}
	return c
}

// CanonSpec computes the canonical typed tree of a model; token indices refer to m.Tokens().
func CanonSpec(m *SpecModel, predefs map[string]string) *CSpec {
	cs := &CSpec{Name: m.Name, Tok: 0}
	idx := 2
	if m.NameSemi {
		idx++
	}
	for _, d := range m.Decls {
		switch d.Kind {
		case "token":
			c := &CDecl{Name: d.Name, Tok: idx}
			switch d.TokKind {
			case "string":
				c.Kind, c.Value = "strtoken", d.Text
			case "regex":
				c.Kind, c.Value = "regextoken", d.Text
			default:
				c.Kind, c.Value = "regextoken", predefs[d.Text]
			}
			idx += 3
			if d.Semi {
				idx++
			}
			cs.Decls = append(cs.Decls, c)
		case "directive":
			c := &CDecl{Kind: "directive", Assoc: d.Assoc, Tok: idx}
			idx++
			for _, h := range d.Handles {
				if h.Term != nil {
					name := h.Term.Name
					if h.Term.K == "str" {
						name = strconv.Quote(name)
					}
					c.Handles = append(c.Handles, &CDecl{Kind: "termhandle", Name: name, Tok: idx})
					idx++
				} else {
					lt := idx
					idx++ // <
					hc := canonRule(h.Rule, &idx, "rulehandle")
					hc.Tok = lt
					idx++ // >
					c.Handles = append(c.Handles, hc)
				}
			}
			if d.Semi {
				idx++
			}
			cs.Decls = append(cs.Decls, c)
		case "rule":
			cs.Decls = append(cs.Decls, canonRule(d, &idx, "rule"))
			idx++ // ;
		}
	}
	return cs
}

// String renders a canonical node (without positions).
func (n *CNode) String() string {
	switch n.K {
	case "T", "N":
		return n.K + ":" + n.Name
	case "Empty":
		return "ε"
	}
	parts := make([]string, len(n.Kids))
	for i, k := range n.Kids {
		parts[i] = k.String()
	}
	return n.K + "(" + strings.Join(parts, ", ") + ")"
}

// DiffCNode compares two canonical nodes (structure, names and position tokens); "" means equal.
func DiffCNode(want, got *CNode, path string) string {
	if want.K != got.K || want.Name != got.Name {
		return fmt.Sprintf("%s: the tree has %s where the source has %s", path, got, want)
	}
	if want.Tok != got.Tok {
		return fmt.Sprintf("%s: %s carries the position of token %d, its position in the source is that of token %d", path, got, got.Tok, want.Tok)
	}
	if len(want.Kids) != len(got.Kids) {
		return fmt.Sprintf("%s: the tree has %s where the source has %s", path, got, want)
	}
	for i := range want.Kids {
		if d := DiffCNode(want.Kids[i], got.Kids[i], fmt.Sprintf("%s/%s[%d]", path, want.K, i)); d != "" {
			return d
		}
	}
	return ""
}

// ToRHS converts a canonical node back to a model right-hand side (used to read the grammar off a typed tree).
func (n *CNode) ToRHS() *RHS {
	switch n.K {
	case "T":
		if strings.HasPrefix(n.Name, `"`) {
			s, err := strconv.Unquote(n.Name)
			if err != nil {
				s = strings.Trim(n.Name, `"`)
			}
			return &RHS{K: "str", Name: s}
		}
		return &RHS{K: "tok", Name: n.Name}
	case "N":
		return &RHS{K: "nt", Name: n.Name}
	case "Empty":
		return &RHS{K: "empty"}
	case "Opt", "Star", "Plus":
		return &RHS{K: strings.ToLower(n.K), Subs: []*RHS{n.Kids[0].ToRHS()}}
	case "Concat":
		r := &RHS{K: "cat"}
		for _, k := range n.Kids {
			s := k.ToRHS()
			if s.K == "alt" {
				s = &RHS{K: "grp", Subs: []*RHS{s}}
			}
			r.Subs = append(r.Subs, s)
		}
		return r
	case "Alt":
		r := &RHS{K: "alt"}
		for _, k := range n.Kids {
			r.Subs = append(r.Subs, k.ToRHS())
		}
		return r
	}
	panic("bad canonical kind " + n.K)
}
