package ref

import (
	"io"
	"sync"
	"testing/iotest"
	"fmt"
	"sort"
	"strings"
)

// ---------------------------------------------------------------------------------------------
// R1: specification model, token printer and layout renderer
// ---------------------------------------------------------------------------------------------

// RHS is the right-hand side tree of a rule.
//
//	K: str (string literal, Name = source text between the quotes), tok (named token), nt (rule reference),
//	   cat, alt (the last alternative may be K=empty), grp ( ), opt [ ], star { }, plus {{ }}, empty
type RHS struct {
	K    string `json:"k"`
	Name string `json:"name,omitempty"`
	Subs []*RHS `json:"subs,omitempty"`
}

// Handle is one handle of a directive: a terminal (str / tok) or a rule.
type Handle struct {
	Term *RHS  `json:"term,omitempty"`
	Rule *Decl `json:"rule,omitempty"`
}

// Decl is one declaration.
type Decl struct {
	Kind    string    `json:"kind"` // token | directive | rule
	Name    string    `json:"name,omitempty"`
	TokKind string    `json:"tok_kind,omitempty"` // string | regex | predef
	Text    string    `json:"text,omitempty"`     // source text between the delimiters / predef name
	Assoc   string    `json:"assoc,omitempty"`    // @left | @right | @none
	Handles []*Handle `json:"handles,omitempty"`
	RHS     *RHS      `json:"rhs,omitempty"` // nil: empty rule
	Semi    bool      `json:"semi"`           // is the (optional) semicolon written
}

// SpecModel is a whole specification.
type SpecModel struct {
	Name     string  `json:"name"`
	NameSemi bool    `json:"name_semi"`
	Decls    []*Decl `json:"decls"`
}

// Tok is a token of the printed specification with its expected lexeme and position.
type Tok struct {
	Kind   string `json:"kind"`
	Src    string `json:"src"`
	Lexeme string `json:"lexeme"`
	Off    int    `json:"off"`
	Line   int    `json:"line"`
	Col    int    `json:"col"`
}

func punct(k string) Tok { return Tok{Kind: k, Src: k, Lexeme: k} }

func termTok(r *RHS) Tok {
	if r.K == "str" {
		return Tok{Kind: "STRING", Src: `"` + r.Name + `"`, Lexeme: r.Name}
	}
	return Tok{Kind: "TOKEN", Src: r.Name, Lexeme: r.Name}
}

func (r *RHS) tokens(out *[]Tok) {
	switch r.K {
	case "str", "tok":
		*out = append(*out, termTok(r))
	case "nt":
		*out = append(*out, Tok{Kind: "IDENT", Src: r.Name, Lexeme: r.Name})
	case "empty":
	case "cat":
		for _, s := range r.Subs {
			s.tokens(out)
		}
	case "alt":
		for i, s := range r.Subs {
			if i > 0 {
				*out = append(*out, punct("|"))
			}
			s.tokens(out)
		}
	case "grp", "opt", "star", "plus":
		open := map[string][2]string{"grp": {"(", ")"}, "opt": {"[", "]"}, "star": {"{", "}"}, "plus": {"{{", "}}"}}[r.K]
		*out = append(*out, punct(open[0]))
		r.Subs[0].tokens(out)
		*out = append(*out, punct(open[1]))
	default:
		panic("bad rhs kind " + r.K)
	}
}

func (d *Decl) ruleTokens(out *[]Tok) {
	*out = append(*out, Tok{Kind: "IDENT", Src: d.Name, Lexeme: d.Name}, punct("="))
	if d.RHS != nil {
		d.RHS.tokens(out)
	}
}

// Tokens prints the model as the token sequence of the specification.
func (m *SpecModel) Tokens() []Tok {
	out := []Tok{punct("grammar"), {Kind: "IDENT", Src: m.Name, Lexeme: m.Name}}
	if m.NameSemi {
		out = append(out, punct(";"))
	}
	for _, d := range m.Decls {
		switch d.Kind {
		case "token":
			out = append(out, Tok{Kind: "TOKEN", Src: d.Name, Lexeme: d.Name}, punct("="))
			switch d.TokKind {
			case "string":
				out = append(out, Tok{Kind: "STRING", Src: `"` + d.Text + `"`, Lexeme: d.Text})
			case "regex":
				out = append(out, Tok{Kind: "REGEX", Src: "/" + d.Text + "/", Lexeme: d.Text})
			default:
				out = append(out, Tok{Kind: "PREDEF", Src: d.Text, Lexeme: d.Text})
			}
			if d.Semi {
				out = append(out, punct(";"))
			}
		case "directive":
			out = append(out, punct(d.Assoc))
			for _, h := range d.Handles {
				if h.Term != nil {
					out = append(out, termTok(h.Term))
				} else {
					out = append(out, punct("<"))
					h.Rule.ruleTokens(&out)
					out = append(out, punct(">"))
				}
			}
			if d.Semi {
				out = append(out, punct(";"))
			}
		case "rule":
			d.ruleTokens(&out)
			out = append(out, punct(";"))
		default:
			panic("bad decl kind " + d.Kind)
		}
	}
	return out
}

// FixSemis makes every optional semicolon explicit where leaving it out would change the token structure:
// a directive directly followed by a token declaration needs its semicolon.
func (m *SpecModel) FixSemis() {
	for i, d := range m.Decls {
		if d.Kind == "directive" && i+1 < len(m.Decls) && m.Decls[i+1].Kind == "token" {
			d.Semi = true
		}
	}
}

// Rules returns every rule written in the specification: rule declarations and rule handles, in source order.
func (m *SpecModel) Rules() []*Decl {
	var out []*Decl
	for _, d := range m.Decls {
		switch d.Kind {
		case "rule":
			out = append(out, d)
		case "directive":
			for _, h := range d.Handles {
				if h.Rule != nil {
					out = append(out, h.Rule)
				}
			}
		}
	}
	return out
}

// Walk visits every node of the tree.
func (r *RHS) Walk(f func(*RHS)) {
	if r == nil {
		return
	}
	f(r)
	for _, s := range r.Subs {
		s.Walk(f)
	}
}

func wordLike(k string) bool {
	switch k {
	case "IDENT", "TOKEN", "PREDEF", "grammar", "@left", "@right", "@none":
		return true
	}
	return false
}

func brace(k string) bool { return k == "{" || k == "}" || k == "{{" || k == "}}" }

// NeedsSeparator reports whether two adjacent tokens must be separated by at least one character of
// layout to be scanned as written.
func NeedsSeparator(a, b Tok) bool {
	if brace(a.Kind) && brace(b.Kind) {
		// "{" "{" would be read as "{{"; "}" "{" and "{" "}" are two tokens also without a separator
		return a.Kind[0] == b.Kind[0]
	}
	if !(wordLike(a.Kind) && wordLike(b.Kind)) {
		return false
	}
	// two word-like tokens: the documented scanner decides (longest run): "@left" directly followed by "PLUS" is still
	// two tokens, "x" directly followed by "y" is not
	key := a.Src + "\x00" + b.Src
	glueMu.Lock()
	defer glueMu.Unlock()
	if v, ok := glueMemo[key]; ok {
		return v
	}
	if glueScanner == nil {
		glueScanner = NewScanner()
	}
	toks, lexErr, single := glueScanner.Scan(a.Src + b.Src)
	need := lexErr != nil || single || len(toks) != 2 || toks[0].Kind != a.Kind || toks[0].Lexeme != a.Lexeme || toks[1].Kind != b.Kind || toks[1].Lexeme != b.Lexeme
	glueMemo[key] = need
	return need
}

var (
	glueMu      sync.Mutex
	glueMemo    = map[string]bool{}
	glueScanner *Scanner
)

// Render lays the tokens out with the given separators (len(seps) == len(toks)+1: before the first token,
// between tokens, after the last) and fills in the offset (in characters), line and column of every token.
func Render(toks []Tok, seps []string) (string, []Tok) {
	var b strings.Builder
	out := make([]Tok, len(toks))
	off, line, col := 0, 1, 1
	write := func(s string) {
		b.WriteString(s) // bytes as they are (a stray byte sequence that is not UTF-8 counts as one character)
		for _, r := range s {
			off++
			if r == '\n' {
				line++
				col = 1
			} else {
				col++
			}
		}
	}
	for i, t := range toks {
		write(seps[i])
		t.Off, t.Line, t.Col = off, line, col
		out[i] = t
		write(t.Src)
	}
	write(seps[len(toks)])
	return b.String(), out
}

// PlainSeps is the simplest layout: one space between tokens, a newline after each ';' and at the end.
func PlainSeps(toks []Tok) []string {
	seps := make([]string, len(toks)+1)
	for i := 1; i < len(toks); i++ {
		seps[i] = " "
		if toks[i-1].Kind == ";" {
			seps[i] = "\n"
		}
	}
	seps[len(toks)] = "\n"
	return seps
}

// Text renders the model in the plain layout.
func (m *SpecModel) Text() string {
	toks := m.Tokens()
	s, _ := Render(toks, PlainSeps(toks))
	return s
}

// Kinds returns the token kinds.
func Kinds(toks []Tok) []string {
	out := make([]string, len(toks))
	for i, t := range toks {
		out[i] = t.Kind
	}
	return out
}

// ---------------------------------------------------------------------------------------------
// R3: greedy recursive-descent parser of EBNF token sequences, written from the documented grammar and
// the published precedence list.  It yields the parse tree over the 35 productions of the documented grammar.
// ---------------------------------------------------------------------------------------------

// TokenKinds lists the 22 token kinds.
var TokenKinds = []string{"=", ";", "|", "(", ")", "[", "]", "{", "}", "{{", "}}", "<", ">", "grammar", "@left", "@right", "@none", "IDENT", "TOKEN", "STRING", "REGEX", "PREDEF"}

// Production is a production of the documented EBNF grammar (own copy, in the documented order).
type Production struct {
	Head string
	Body []string
}

// Productions is the documented grammar, numbered as in the documentation.
var Productions = []Production{
	{"grammar", []string{"name", "decls"}},
	{"name", []string{"grammar", "IDENT", "semi_opt"}},
	{"decls", []string{"decls", "decl"}},
	{"decls", nil},
	{"decl", []string{"token", "semi_opt"}},
	{"decl", []string{"directive", "semi_opt"}},
	{"decl", []string{"rule", ";"}},
	{"semi_opt", []string{";"}},
	{"semi_opt", nil},
	{"token", []string{"TOKEN", "=", "STRING"}},
	{"token", []string{"TOKEN", "=", "REGEX"}},
	{"token", []string{"TOKEN", "=", "PREDEF"}},
	{"directive", []string{"@left", "handles"}},
	{"directive", []string{"@right", "handles"}},
	{"directive", []string{"@none", "handles"}},
	{"handles", []string{"handles", "term"}},
	{"handles", []string{"handles", "rule_handle"}},
	{"handles", []string{"term"}},
	{"handles", []string{"rule_handle"}},
	{"rule_handle", []string{"<", "rule", ">"}},
	{"rule", []string{"lhs", "=", "rhs"}},
	{"rule", []string{"lhs", "="}},
	{"lhs", []string{"nonterm"}},
	{"rhs", []string{"rhs", "rhs"}},
	{"rhs", []string{"(", "rhs", ")"}},
	{"rhs", []string{"[", "rhs", "]"}},
	{"rhs", []string{"{", "rhs", "}"}},
	{"rhs", []string{"{{", "rhs", "}}"}},
	{"rhs", []string{"rhs", "|", "rhs"}},
	{"rhs", []string{"rhs", "|"}},
	{"rhs", []string{"nonterm"}},
	{"rhs", []string{"term"}},
	{"nonterm", []string{"IDENT"}},
	{"term", []string{"TOKEN"}},
	{"term", []string{"STRING"}},
}

// NonTerminalNames lists the 14 non-terminals of the documented grammar.
var NonTerminalNames = []string{"grammar", "name", "decls", "decl", "semi_opt", "token", "directive", "handles", "rule_handle", "rule", "lhs", "rhs", "nonterm", "term"}

// Node is a parse-tree node: a leaf (Prod == -1, Tok = token index) or an application of a production.
type Node struct {
	Prod int
	Tok  int
	Kids []*Node
}

// PostOrder appends the events of the tree in the order of a rightmost derivation in reverse:
// a token event (>= 0: token index) for every leaf, a production event (-1-index) for every interior node.
func (n *Node) PostOrder(out *[]int) {
	if n.Prod < 0 {
		*out = append(*out, n.Tok)
		return
	}
	for _, k := range n.Kids {
		k.PostOrder(out)
	}
	*out = append(*out, -1-n.Prod)
}

// FirstTok returns the index of the first token under the node, or -1 for an empty derivation.
func (n *Node) FirstTok() int {
	if n.Prod < 0 {
		return n.Tok
	}
	for _, k := range n.Kids {
		if t := k.FirstTok(); t >= 0 {
			return t
		}
	}
	return -1
}

type rdFail struct{}

type rdParser struct {
	t []string
	i int
}

func (p *rdParser) peek() string {
	if p.i < len(p.t) {
		return p.t[p.i]
	}
	return "$"
}

func (p *rdParser) leaf() *Node {
	n := &Node{Prod: -1, Tok: p.i}
	p.i++
	return n
}

func (p *rdParser) expect(k string) *Node {
	if p.peek() != k {
		panic(rdFail{})
	}
	return p.leaf()
}

func isTermKind(k string) bool { return k == "TOKEN" || k == "STRING" }

func startsPrimary(k string) bool {
	return k == "(" || k == "[" || k == "{" || k == "{{" || k == "IDENT" || isTermKind(k)
}

func nd(prod int, kids ...*Node) *Node { return &Node{Prod: prod, Kids: kids} }

func (p *rdParser) semiOpt() *Node {
	if p.peek() == ";" {
		return nd(7, p.leaf())
	}
	return nd(8)
}

func (p *rdParser) grammar() *Node {
	g := p.expect("grammar")
	id := p.expect("IDENT")
	name := nd(1, g, id, p.semiOpt())
	decls := nd(3)
	for p.peek() != "$" {
		decls = nd(2, decls, p.decl())
	}
	return nd(0, name, decls)
}

func (p *rdParser) term() *Node {
	if p.peek() == "TOKEN" {
		return nd(33, p.leaf())
	}
	return nd(34, p.expect("STRING"))
}

func (p *rdParser) decl() *Node {
	switch k := p.peek(); {
	case k == "TOKEN":
		a := p.leaf()
		b := p.expect("=")
		var tok *Node
		switch p.peek() {
		case "STRING":
			tok = nd(9, a, b, p.leaf())
		case "REGEX":
			tok = nd(10, a, b, p.leaf())
		case "PREDEF":
			tok = nd(11, a, b, p.leaf())
		default:
			panic(rdFail{})
		}
		return nd(4, tok, p.semiOpt())
	case k == "@left" || k == "@right" || k == "@none":
		prod := map[string]int{"@left": 12, "@right": 13, "@none": 14}[k]
		kw := p.leaf()
		var handles *Node
		for {
			var h *Node
			isRule := false
			if isTermKind(p.peek()) {
				h = p.term()
			} else if p.peek() == "<" {
				lt := p.leaf()
				r := p.rule()
				h = nd(19, lt, r, p.expect(">"))
				isRule = true
			} else {
				break
			}
			switch {
			case handles == nil && !isRule:
				handles = nd(17, h)
			case handles == nil:
				handles = nd(18, h)
			case !isRule:
				handles = nd(15, handles, h)
			default:
				handles = nd(16, handles, h)
			}
		}
		if handles == nil {
			panic(rdFail{})
		}
		return nd(5, nd(prod, kw, handles), p.semiOpt())
	case k == "IDENT":
		r := p.rule()
		return nd(6, r, p.expect(";"))
	}
	panic(rdFail{})
}

func (p *rdParser) rule() *Node {
	lhs := nd(22, nd(32, p.expect("IDENT")))
	eq := p.expect("=")
	if startsPrimary(p.peek()) {
		return nd(20, lhs, eq, p.alt())
	}
	return nd(21, lhs, eq)
}

// alt: '|' is right associative and binds weaker than juxtaposition; a '|' that is not followed by an
// operand is the trailing (empty) alternative.
func (p *rdParser) alt() *Node {
	left := p.concat()
	for p.peek() == "|" {
		bar := p.leaf()
		if startsPrimary(p.peek()) {
			left = nd(28, left, bar, p.alt())
		} else {
			left = nd(29, left, bar)
		}
	}
	return left
}

// concat: juxtaposition is left associative and binds tightest; operands are consumed greedily.
func (p *rdParser) concat() *Node {
	left := p.primary()
	for startsPrimary(p.peek()) {
		left = nd(23, left, p.primary())
	}
	return left
}

func (p *rdParser) primary() *Node {
	switch k := p.peek(); k {
	case "(", "[", "{", "{{":
		prod := map[string]int{"(": 24, "[": 25, "{": 26, "{{": 27}[k]
		closer := map[string]string{"(": ")", "[": "]", "{": "}", "{{": "}}"}[k]
		open := p.leaf()
		inner := p.alt()
		return nd(prod, open, inner, p.expect(closer))
	case "IDENT":
		return nd(30, nd(32, p.leaf()))
	case "TOKEN", "STRING":
		return nd(31, p.term())
	}
	panic(rdFail{})
}

// ParseKinds parses a sequence of token kinds.  On success tree != nil.  Otherwise errIdx is the index of the
// first token after which no specification can continue (len(kinds) when the sequence merely ends too early).
func ParseKinds(kinds []string) (tree *Node, errIdx int) {
	p := &rdParser{t: kinds}
	defer func() {
		if r := recover(); r != nil {
			if _, ok := r.(rdFail); !ok {
				panic(r)
			}
			tree, errIdx = nil, p.i
		}
	}()
	t := p.grammar()
	return t, -1
}

// ---------------------------------------------------------------------------------------------
// R4: bounded language evaluator
// ---------------------------------------------------------------------------------------------

// Lang is a set of terminal strings; a string is the sequence of its terminal names joined by "\x1f".
type Lang map[string]bool

const sep = "\x1f"

func wlen(w string) int {
	if w == "" {
		return 0
	}
	return strings.Count(w, sep) + 1
}

func join(a, b string) string {
	if a == "" {
		return b
	}
	if b == "" {
		return a
	}
	return a + sep + b
}

// Cat is concatenation truncated to n terminals.
func (a Lang) Cat(b Lang, n int) Lang {
	o := Lang{}
	for x := range a {
		lx := wlen(x)
		for y := range b {
			if lx+wlen(y) <= n {
				o[join(x, y)] = true
			}
		}
	}
	return o
}

// Union is set union.
func (a Lang) Union(b Lang) Lang {
	o := make(Lang, len(a)+len(b))
	for x := range a {
		o[x] = true
	}
	for x := range b {
		o[x] = true
	}
	return o
}

// Star is the Kleene closure truncated to n terminals.
func (a Lang) Star(n int) Lang {
	o := Lang{"": true}
	for {
		nx := o.Union(o.Cat(a, n))
		if len(nx) == len(o) {
			return o
		}
		o = nx
	}
}

// Equal compares two languages.
func (a Lang) Equal(b Lang) bool {
	if len(a) != len(b) {
		return false
	}
	for x := range a {
		if !b[x] {
			return false
		}
	}
	return true
}

// Diff returns a shortest sentence that is in exactly one of the two languages.
func (a Lang) Diff(b Lang) (w string, inA bool, differs bool) {
	var cands []string
	for x := range a {
		if !b[x] {
			cands = append(cands, "a"+x)
		}
	}
	for x := range b {
		if !a[x] {
			cands = append(cands, "b"+x)
		}
	}
	if len(cands) == 0 {
		return "", false, false
	}
	sort.Slice(cands, func(i, j int) bool {
		li, lj := wlen(cands[i][1:]), wlen(cands[j][1:])
		if li != lj {
			return li < lj
		}
		return cands[i] < cands[j]
	})
	return cands[0][1:], cands[0][0] == 'a', true
}

// Show prints a sentence readably.
func Show(w string) string {
	if w == "" {
		return "ε"
	}
	return strings.Join(strings.Split(w, sep), " ")
}

// TermName is the name under which emerge is documented to know the terminal of a leaf: a string literal is
// known by its text, a named token by its name.
func TermName(r *RHS) string { return r.Name }

func evalRHS(r *RHS, env map[string]Lang, n int) Lang {
	if r == nil {
		return Lang{"": true}
	}
	switch r.K {
	case "str", "tok":
		if n < 1 {
			return Lang{}
		}
		return Lang{TermName(r): true}
	case "nt":
		if l, ok := env[r.Name]; ok {
			return l
		}
		return Lang{}
	case "empty":
		return Lang{"": true}
	case "cat":
		o := Lang{"": true}
		for _, s := range r.Subs {
			o = o.Cat(evalRHS(s, env, n), n)
		}
		return o
	case "alt":
		o := Lang{}
		for _, s := range r.Subs {
			o = o.Union(evalRHS(s, env, n))
		}
		return o
	case "grp":
		return evalRHS(r.Subs[0], env, n)
	case "opt":
		return Lang{"": true}.Union(evalRHS(r.Subs[0], env, n))
	case "star":
		return evalRHS(r.Subs[0], env, n).Star(n)
	case "plus":
		x := evalRHS(r.Subs[0], env, n)
		return x.Cat(x.Star(n), n)
	}
	panic("bad rhs kind " + r.K)
}

func envSize(env map[string]Lang) int {
	s := 0
	for _, l := range env {
		s += len(l)
	}
	return s
}

// ModelLanguages computes, for every rule name of the model, the sentences of at most n terminals that the
// EBNF text denotes (least fixed point of the language equations; several rules with the same name add up).
func ModelLanguages(rules []*Decl, n int) map[string]Lang {
	env := map[string]Lang{}
	for _, r := range rules {
		env[r.Name] = Lang{}
	}
	for {
		before := envSize(env)
		for _, r := range rules {
			env[r.Name] = env[r.Name].Union(evalRHS(r.RHS, env, n))
		}
		if envSize(env) == before {
			return env
		}
	}
}

// CFGProduction is a plain production: head and body symbols ("t:" + name for terminals, "n:" + name for non-terminals).
type CFGProduction struct {
	Head string
	Body []string
}

// CFGLanguages computes L<=n of every non-terminal of a plain context-free grammar.
func CFGLanguages(prods []CFGProduction, n int) map[string]Lang {
	env := map[string]Lang{}
	for _, p := range prods {
		env[p.Head] = Lang{}
	}
	for {
		before := envSize(env)
		for _, p := range prods {
			o := Lang{"": true}
			for _, s := range p.Body {
				if strings.HasPrefix(s, "t:") {
					o = o.Cat(Lang{s[2:]: true}, n)
				} else {
					o = o.Cat(env[s[2:]], n)
				}
				if len(o) == 0 {
					break
				}
			}
			env[p.Head] = env[p.Head].Union(o)
		}
		if envSize(env) == before {
			return env
		}
	}
}

// DescribeRules prints rules compactly for messages.
func DescribeRules(rules []*Decl) string {
	var b strings.Builder
	for _, r := range rules {
		var toks []Tok
		r.ruleTokens(&toks)
		parts := make([]string, len(toks))
		for i, t := range toks {
			parts[i] = t.Src
		}
		fmt.Fprintf(&b, "%s;\n", strings.Join(parts, " "))
	}
	return b.String()
}

// EvalRHS evaluates a right-hand side in a given environment (bounded to n terminals).
func EvalRHS(r *RHS, env map[string]Lang, n int, _ []*Decl) Lang { return evalRHS(r, env, n) }

// ---------------------------------------------------------------------------------------------
// Sources: how a text reaches emerge
// ---------------------------------------------------------------------------------------------

// Source returns a reader of the text. What a reader hands out per call is up to the reader (io.Reader: fewer bytes than
// asked for, the last bytes together with io.EOF, one byte at a time), so the way is chosen by a digest of the text:
// a quarter each of plain, last-data-with-EOF, half reads and one byte per read. The result of processing a text
// must not depend on it.
func Source(text string) io.Reader {
	h := uint32(2166136261)
	for i := 0; i < len(text); i++ {
		h = (h ^ uint32(text[i])) * 16777619
	}
	return SourceMode(text, int(h>>3)%4)
}

// SourceMode: 0 plain, 1 the last data arrives together with io.EOF, 2 half of what is asked for, 3 one byte per read.
func SourceMode(text string, mode int) io.Reader {
	switch mode {
	case 1:
		return iotest.DataErrReader(strings.NewReader(text))
	case 2:
		return iotest.HalfReader(strings.NewReader(text))
	case 3:
		if len(text) <= 20000 {
			return iotest.OneByteReader(strings.NewReader(text))
		}
		return iotest.HalfReader(strings.NewReader(text))
	}
	return strings.NewReader(text)
}
