package ref

import (
	"sort"
	"unicode/utf8"
)

// ---------------------------------------------------------------------------------------------
// R2: reference EBNF scanner, transcribed from the token table of docs/5-definitions.md and the comment and
// whitespace rules of docs/6-design.md.  One matcher (a pattern tree of the R5 model, lazily determinised) per
// token kind; scanning is maximal munch over all matchers, the keyword wins over IDENT.
// ---------------------------------------------------------------------------------------------

// ScanKind is one token kind of the EBNF language with its matcher.
type ScanKind struct {
	Name string // terminal name as emerge reports it (WS, EOL and COMMENT are skipped)
	Skip bool
	Trim bool // the lexeme is the text strictly between the delimiters (STRING, REGEX)
	Text bool // the lexeme is the source text (PREDEF, IDENT, TOKEN)
	Pat  *Pat
}

func sLit(r rune) *Pat           { return &Pat{K: "lit", R: r} }
func sRng(a, b rune) *Pat        { return &Pat{K: "rng", R: a, R2: b} }
func sBr(items ...*Pat) *Pat     { return &Pat{K: "br", Items: items} }
func sCat(s ...*Pat) *Pat        { return &Pat{K: "cat", Subs: s} }
func sAlt(s ...*Pat) *Pat        { return &Pat{K: "alt", Subs: s} }
func sRep(s *Pat, min int) *Pat  { return &Pat{K: "q", Subs: []*Pat{s}, Min: min, Max: -1} }
func sWord(w string) *Pat {
	p := &Pat{K: "cat"}
	for _, r := range w {
		p.Subs = append(p.Subs, sLit(r))
	}
	if len(p.Subs) == 1 {
		return p.Subs[0]
	}
	return p
}

// ScanKinds returns the documented token kinds.
func ScanKinds() []*ScanKind {
	ks := []*ScanKind{
		{Name: "WS", Skip: true, Pat: sRep(sBr(sLit('\t'), sLit(' ')), 1)},
		{Name: "EOL", Skip: true, Pat: sRep(sBr(sLit('\n'), sLit('\r')), 1)},
	}
	for _, p := range []string{"=", ";", "|", "(", ")", "[", "]", "{", "}", "{{", "}}", "<", ">", "@left", "@right", "@none", "grammar"} {
		ks = append(ks, &ScanKind{Name: p, Pat: sWord(p)})
	}
	upper := sBr(sRng('A', 'Z'))
	upperTail := sRep(sBr(sRng('0', '9'), sRng('A', 'Z'), sLit('_')), 0)
	strChar := sAlt(sBr(sLit(0x21), sRng(0x23, 0x5B), sRng(0x5D, 0x7E)), sCat(sLit('\\'), sBr(sRng(0x21, 0x7E))))
	reEsc := sCat(sLit('\\'), sBr(sRng(0x20, 0x7E)))
	reChar := sAlt(sBr(sRng(0x20, 0x2E), sRng(0x30, 0x5B), sRng(0x5D, 0x7E)), reEsc)
	reFirst := sAlt(sBr(sRng(0x20, 0x29), sRng(0x2B, 0x2E), sRng(0x30, 0x5B), sRng(0x5D, 0x7E)), reEsc) // not '/' and not '*'
	comChar := func(except ...rune) *Pat {
		// characters of a multi-line comment: tab, newline, carriage return, 0x20-0x7E, minus the exceptions
		items := []*Pat{sLit('\t'), sLit('\n'), sLit('\r')}
		lo := rune(0x20)
		ex := append([]rune{}, except...)
		sort.Slice(ex, func(i, j int) bool { return ex[i] < ex[j] })
		for _, e := range ex {
			if e > lo {
				items = append(items, sRng(lo, e-1))
			}
			lo = e + 1
		}
		items = append(items, sRng(lo, 0x7E))
		return sBr(items...)
	}
	ks = append(ks,
		&ScanKind{Name: "PREDEF", Text: true, Pat: sCat(sLit('$'), upper, upperTail)},
		&ScanKind{Name: "IDENT", Text: true, Pat: sCat(sBr(sRng('a', 'z')), sRep(sBr(sRng('0', '9'), sRng('a', 'z'), sLit('_')), 0))},
		&ScanKind{Name: "TOKEN", Text: true, Pat: sCat(upper, upperTail)},
		&ScanKind{Name: "STRING", Trim: true, Pat: sCat(sLit('"'), sRep(strChar, 1), sLit('"'))},
		&ScanKind{Name: "REGEX", Trim: true, Pat: sCat(sLit('/'), reFirst, sRep(reChar, 0), sLit('/'))},
		&ScanKind{Name: "COMMENT", Skip: true, Pat: sCat(sLit('/'), sLit('/'), sRep(sBr(sLit('\t'), sRng(0x20, 0x7E)), 0))},
		// a multi-line comment ends at the FIRST "*/":  /\*([^*]|\*+[^*/])*\*+/
		&ScanKind{Name: "COMMENT", Skip: true, Pat: sCat(sLit('/'), sLit('*'),
			sRep(sAlt(comChar('*'), sCat(sRep(sLit('*'), 1), comChar('*', '/'))), 0), sRep(sLit('*'), 1), sLit('/'))},
	)
	return ks
}

// Scanner is the reference scanner.
type Scanner struct {
	Kinds []*ScanKind
	dfas  []*RefDFA
}

// NewScanner builds the matchers.
func NewScanner() *Scanner {
	s := &Scanner{Kinds: ScanKinds()}
	for _, k := range s.Kinds {
		s.dfas = append(s.dfas, NewRef(k.Pat, false))
	}
	return s
}

// ScanState is the state of the reference automaton: one state per matcher.
type ScanState []int

// Start returns the start state.
func (s *Scanner) Start() ScanState { return make(ScanState, len(s.dfas)) }

// Next advances every matcher.
func (s *Scanner) Next(st ScanState, r rune) ScanState {
	nx := make(ScanState, len(st))
	for i, d := range s.dfas {
		nx[i] = d.Next(st[i], r)
	}
	return nx
}

// Dead reports whether no matcher can continue.
func (s *Scanner) Dead(st ScanState) bool {
	for i, d := range s.dfas {
		if !d.Dead(st[i]) {
			return false
		}
	}
	return true
}

// Accepting returns the kind accepted in the state (the keyword wins over IDENT), or nil.
func (s *Scanner) Accepting(st ScanState) *ScanKind {
	var best *ScanKind
	for i, d := range s.dfas {
		if d.Accepting(st[i]) {
			k := s.Kinds[i]
			if best == nil || (best.Name == "IDENT" && k.Name == "grammar") {
				best = k
			}
		}
	}
	return best
}

// Key encodes a state for use as a map key.
func (st ScanState) Key() string {
	b := make([]byte, 0, len(st)*2)
	for _, x := range st {
		b = append(b, byte(x), byte(x>>8))
	}
	return string(b)
}

// ScanError is the first lexical error of a text: the position of the offending lexeme's first character.
type ScanError struct {
	Off, Line, Col int
	Text           string // the run the scanner followed before it gave up
}

// Scan tokenises a text: significant tokens with lexeme and position, and the first lexical error if any.
// singleUpper reports whether a token consisting of one upper-case letter was met (documented contradiction).
func (s *Scanner) Scan(text string) (toks []Tok, lexErr *ScanError, singleUpper bool) {
	rs := []rune(text)
	off, line, col := 0, 1, 1
	i := 0
	for i < len(rs) {
		st := s.Start()
		var lastKind *ScanKind
		lastLen := 0
		j := i
		for j < len(rs) {
			st = s.Next(st, rs[j])
			if s.Dead(st) {
				break
			}
			j++
			if k := s.Accepting(st); k != nil {
				lastKind, lastLen = k, j-i
			}
		}
		// the scanner follows the longest run and evaluates the state it stopped in
		run := j - i
		if lastKind == nil || lastLen != run {
			return toks, &ScanError{Off: off, Line: line, Col: col, Text: string(rs[i:j])}, singleUpper
		}
		src := string(rs[i : i+run])
		if !lastKind.Skip {
			t := Tok{Kind: lastKind.Name, Src: src, Lexeme: src, Off: off, Line: line, Col: col}
			if lastKind.Trim {
				t.Lexeme = string(rs[i+1 : i+run-1])
			}
			if lastKind.Name == "TOKEN" && run == 1 {
				singleUpper = true
			}
			toks = append(toks, t)
		}
		for _, r := range rs[i : i+run] {
			off++
			if r == '\n' {
				line++
				col = 1
			} else {
				col++
			}
		}
		i += run
	}
	return toks, nil, singleUpper
}

// Boundaries returns the offsets at which a lexeme (token, whitespace run, newline run or comment) ends and
// the next one begins, up to the first lexical error.
func (s *Scanner) Boundaries(text string) []int {
	rs := []rune(text)
	var out []int
	i := 0
	for i < len(rs) {
		st := s.Start()
		j := i
		last := 0
		for j < len(rs) {
			st = s.Next(st, rs[j])
			if s.Dead(st) {
				break
			}
			j++
			if s.Accepting(st) != nil {
				last = j - i
			}
		}
		if last == 0 || last != j-i {
			return out
		}
		i += last
		out = append(out, i)
	}
	return out
}

// FirstInvalidUTF8 returns the index (in runes, as Scan counts offsets) and the line and column of the first byte
// of the text that does not begin a valid UTF-8 sequence.
func FirstInvalidUTF8(text string) (off, line, col int, found bool) {
	line, col = 1, 1
	for i := 0; i < len(text); {
		r, size := utf8.DecodeRuneInString(text[i:])
		if r == utf8.RuneError && size <= 1 {
			return off, line, col, true
		}
		off++
		if r == '\n' {
			line++
			col = 1
		} else {
			col++
		}
		i += size
	}
	return 0, 0, 0, false
}
