// Package c09 decides property C09: a pattern is accepted only as a whole sentence of the documented pattern grammar.
package c09

import (
	"os"
	"regexp"
	"strconv"
	"sort"
	"unicode"
	"encoding/json"
	"fmt"
	"strings"
	"testing"

	"pgregory.net/rapid"

	"github.com/gardenbed/emerge/internal/ebnf/parser/spec"
	rast "github.com/gardenbed/emerge/internal/regex/parser/ast"
	"github.com/gardenbed/emerge/internal/regex/parser/nfa"
	"github.com/gardenbed/emerge/internal/vh/gen"
	"github.com/gardenbed/emerge/internal/vh/rec"
	"github.com/gardenbed/emerge/internal/vh/ref"
)

func TestMain(m *testing.M) { rec.Main(m, "C09") }

// ruleMore describes what was added to the exploration in the build phase.
const ruleMore = "; patterns of hundreds and thousands of items, alternatives and nested groups; repetition ranges with minimum above maximum also with counts up to 5000, counts that overflow an integer; also: \\p{Name} for every table name of Go's unicode package and class names of other notations (a sentence iff documented), ranges whose end points are surrogate code points"

const rule = "strings: (a) every string up to a length bound over a reduced alphabet (the 13 metacharacters, ^ - , : and representatives a b 0 1 x p A), " +
	"(b) canonical prints of generated pattern trees, (c) single-edit mutations of (b), (d) patterns seeded with a descending range or a min>max repetition in every spelling; " +
	"oracle: accepted by either Parse entry point => the entire text is a sentence of the documented grammar (all-parses recogniser); canonical prints are accepted; " +
	"meaningless ranges are rejected naming the range; both entry points agree; non-trivial = accepted text with >=2 constructs, or rejected text at edit distance 1 from an accepted one, or a seeded meaningless range; distinct by text"

const alphabet = `\|.?*+()[]{}$^-,:ab01xpA`

type input struct {
	Text string `json:"text"`
	Mode string `json:"mode"` // any | canonical | descending
	Want string `json:"want,omitempty"`
}

var breadcrumb = os.Getenv("VERIF_BREADCRUMB")

func parseBoth(s string) (e1, e2 error, perr error) {
	if breadcrumb != "" {
		_ = os.WriteFile(breadcrumb, []byte(s), 0o644) // the last text submitted, for a post-mortem of a killed process
	}
	perr = rec.Guard(func() {
		_, e1 = nfa.Parse(s)
		_, e2 = rast.Parse(s)
	})
	return
}

// checkText is the oracle for an arbitrary text.
func checkText(s string) (accepted bool, err error) {
	e1, e2, perr := parseBoth(s)
	if perr != nil {
		return false, fmt.Errorf("text %q: %v", s, perr)
	}
	if (e1 == nil) != (e2 == nil) {
		return false, fmt.Errorf("text %q: the two Parse entry points disagree: nfa.Parse error=%v, ast.Parse error=%v", s, e1, e2)
	}
	if e1 == nil && !ref.IsPatternSentence(s) {
		return true, fmt.Errorf("text %q is accepted as a pattern, but the entire text is not a sentence of the documented pattern grammar", s)
	}
	// the route a token definition of a specification takes (its own entry into the pattern parser): a text that is
	// no pattern must not become a token automaton either
	if e1 != nil || (len(s) <= 12 && fnv32(s)%8 == 0) {
		var serr error
		if g := rec.Guard(func() { _, serr = spec.VerifRegexToDFA(s) }); g == nil {
			rec.Count("texts_also_submitted_as_token_definitions", 1)
			if serr == nil && e1 != nil {
				return false, fmt.Errorf("text %q is rejected by nfa.Parse (%v), but the token pipeline of a specification builds an automaton for it without any error", s, e1)
			}
			if serr != nil && e1 == nil {
				return true, fmt.Errorf("text %q is accepted by nfa.Parse, but the token pipeline of a specification rejects it: %v", s, serr)
			}
		}
	}
	return e1 == nil, nil
}

func fnv32(s string) uint32 {
	h := uint32(2166136261)
	for i := 0; i < len(s); i++ {
		h = (h ^ uint32(s[i])) * 16777619
	}
	return h
}

func checkCanonical(s string) error {
	e1, e2, perr := parseBoth(s)
	if perr != nil {
		return fmt.Errorf("pattern %q: %v", s, perr)
	}
	if e1 != nil || e2 != nil {
		return fmt.Errorf("pattern %q is written with documented constructs in unambiguous forms but is rejected: nfa.Parse error=%v, ast.Parse error=%v", s, e1, e2)
	}
	if !ref.IsPatternSentence(s) {
		return fmt.Errorf("harness inconsistency: canonical print %q is not a sentence for the reference recogniser", s)
	}
	return nil
}

// checkMeaningless: the text is grammatical but contains the meaningless range `want...`; it must be rejected
// by both entry points with a message that names the range (all the given fragments).
func checkMeaningless(s string, frags []string) error {
	if !ref.IsPatternSentence(s) {
		return fmt.Errorf("harness inconsistency: %q is not grammatical", s)
	}
	e1, e2, perr := parseBoth(s)
	if perr != nil {
		return fmt.Errorf("pattern %q: %v", s, perr)
	}
	for i, e := range []error{e1, e2} {
		name := []string{"nfa.Parse", "(regex) ast.Parse"}[i]
		if e == nil {
			return fmt.Errorf("%s accepts %q, which contains the meaningless range %v", name, s, frags)
		}
		for _, f := range frags {
			if !strings.Contains(e.Error(), f) {
				return fmt.Errorf("%s rejects %q but the error does not name the offending range (%q missing): %v", name, s, f, e)
			}
		}
	}
	return nil
}

type tb interface {
	Helper()
	Fatalf(string, ...any)
}

func constructs(s string) int {
	n := 0
	for _, c := range s {
		if strings.ContainsRune(`|.?*+([{\$`, c) {
			n++
		}
	}
	return n
}

func TestExhaustiveShortStrings(t *testing.T) {
	rec.Begin(t)
	rec.Rule(rule + ruleMore)
	maxLen := rec.Pick(4, 5)
	alpha := []rune(alphabet)
	accepted, total := 0, 0
	buf := make([]rune, 0, maxLen)
	var walk func(depth int)
	idx := 0
	walk = func(depth int) {
		if depth > 0 {
			idx++
			if idx%rec.NShards() == rec.Shard() {
				s := string(buf)
				ok, err := checkText(s)
				total++
				if ok {
					accepted++
					if constructs(s) >= 2 {
						rec.Distinct(s)
						rec.Sample(fmt.Sprintf("accepted-len%d", depth), s)
					}
				}
				if err != nil {
					rec.Fail(t, "text", input{Text: s, Mode: "any"}, "%v", err)
				}
			}
		}
		if depth == maxLen {
			return
		}
		for _, c := range alpha {
			buf = append(buf, c)
			walk(depth + 1)
			buf = buf[:len(buf)-1]
		}
	}
	walk(0)
	rec.Evals(total)
	rec.Count("exhaustive_strings", total)
	rec.Count("exhaustive_max_len", maxLen)
	rec.Count("exhaustive_accepted", accepted)
	rec.Class("exhaustive_rejected", total-accepted)
}

var countRe = regexp.MustCompile(`\{(\d+)(?:,(\d*))?\}`)

// expansive reports whether the repetition counts of a text multiply to an automaton too large to build here: an edit
// that turns {3} into {33} under two more repetitions legitimately costs gigabytes, which says nothing about the
// property (the text is then not submitted; counted).
var rangeRe = regexp.MustCompile(`(\\x[0-9A-F]{2,8}|[^\\])-(\\x[0-9A-F]{2,8}|[^\\\]])`)

func endPoint(s string) int64 {
	if strings.HasPrefix(s, `\x`) {
		v, _ := strconv.ParseInt(s[2:], 16, 64)
		return v
	}
	for _, r := range s {
		return int64(r)
	}
	return 0
}

func expansive(s string) bool {
	// a range is enumerated character by character: an edit that widens one to tens of thousands of code points
	for _, m := range rangeRe.FindAllStringSubmatch(s, -1) {
		if lo, hi := endPoint(m[1]), endPoint(m[2]); hi-lo > 3000 {
			return true
		}
	}
	product := 1
	for _, m := range countRe.FindAllStringSubmatch(s, -1) {
		n := 0
		for _, g := range m[1:] {
			if len(g) > 4 {
				return true
			}
			if v, err := strconv.Atoi(g); err == nil && v > n {
				n = v
			}
		}
		if n > 12 {
			return true
		}
		if n > 1 {
			product *= n
		}
		if product > 600 {
			return true
		}
	}
	return false
}

func TestCanonicalPrintsAndMutations(t *testing.T) {
	rec.Rule(rule + ruleMore)
	edits := []rune(alphabet + ` "'/_zé`)
	rec.Check(t, 3000, 150000, func(t *rapid.T) {
		p := gen.Pattern(t, rapid.IntRange(0, 4).Draw(t, "depth"), false)
		s := p.String()
		rec.Case(s, constructs(s) >= 2, "canonical")
		rec.Sample("canonical", s)
		if err := checkCanonical(s); err != nil {
			rec.Fail(t, "text", input{Text: s, Mode: "canonical"}, "%v", err)
		}
		// single-edit mutations
		rs := []rune(s)
		for k := 0; k < 4; k++ {
			pos := rapid.IntRange(0, len(rs)).Draw(t, "pos")
			var m []rune
			switch rapid.IntRange(0, 2).Draw(t, "edit") {
			case 0: // insert
				m = append(append(append(m, rs[:pos]...), rapid.SampledFrom(edits).Draw(t, "c")), rs[pos:]...)
			case 1: // delete
				if pos == len(rs) {
					pos--
				}
				if pos < 0 {
					continue
				}
				m = append(append(m, rs[:pos]...), rs[pos+1:]...)
			default: // replace
				if pos == len(rs) {
					pos--
				}
				if pos < 0 {
					continue
				}
				m = append(append(append(m, rs[:pos]...), rapid.SampledFrom(edits).Draw(t, "c")), rs[pos+1:]...)
			}
			ms := string(m)
			if expansive(ms) {
				rec.Count("not_submitted_expansive_repetitions", 1)
				continue
			}
			ok, err := checkText(ms)
			cls := "mutant_rejected"
			if ok {
				cls = "mutant_accepted"
			}
			rec.Case(ms, !ok || constructs(ms) >= 2, cls)
			if !ok {
				rec.Sample("mutant_rejected", ms)
			}
			if err != nil {
				rec.Fail(t, "text", input{Text: ms, Mode: "any"}, "%v", err)
			}
		}
	})
}

func spellings(r rune) []string {
	var out []string
	if r >= 0x20 && r <= 0x7E && !strings.ContainsRune(`\]^-[`, r) {
		out = append(out, string(r))
	}
	if r <= 0xFF {
		out = append(out, fmt.Sprintf(`\x%02X`, r))
	}
	if r <= 0xFFFF {
		out = append(out, fmt.Sprintf(`\x%04X`, r))
	}
	out = append(out, fmt.Sprintf(`\x%06X`, r), fmt.Sprintf(`\x%08X`, r))
	return out
}

func TestMeaninglessRangesRejected(t *testing.T) {
	rec.Rule(rule + ruleMore)
	rec.Check(t, 1500, 60000, func(t *rapid.T) {
		ctxPre := rapid.SampledFrom([]string{"", "a", "(b|", "x*", "[0-9]", "^"}).Draw(t, "pre")
		ctxPost := map[string]string{"": "", "a": "b", "(b|": ")", "x*": "y", "[0-9]": "z", "^": "$"}[ctxPre]
		if rapid.Bool().Draw(t, "charRange") {
			hi := rapid.SampledFrom([]rune{'b', 'z', '9', 'Z', 0x7E, 0xE9, 0x3A9, 0x1F64F, 0xE000, 0xE001, 0xDFFF, 0xD801, 0xFFFD, 0xFFFE, 0x10000, 0x10FFFF, 0x110000, 0x110005, 0x7FFFFFFF}).Draw(t, "hi")
			lo := hi - rune(rapid.IntRange(1, 40).Draw(t, "d"))
			if lo < 0x21 {
				lo = 0x21
			}
			hs := rapid.SampledFrom(spellings(hi)).Draw(t, "hs")
			ls := rapid.SampledFrom(spellings(lo)).Draw(t, "ls")
			// a following item must not start with a hexadecimal digit (it would extend a short escape)
			tail := rapid.SampledFrom([]string{"", "_", `\d`, "x-z"}).Draw(t, "tail")
			neg := rapid.SampledFrom([]string{"", "^"}).Draw(t, "neg")
			head := rapid.SampledFrom([]string{"", "_", `\w`}).Draw(t, "head")
			s := ctxPre + "[" + neg + head + hs + "-" + ls + tail + "]" + ctxPost
			rec.Case(s, true, "descending_char_range")
			rec.Sample("descending", s)
			frags := []string{}
			if hi <= 0x7E {
				frags = append(frags, string(hi)+"-")
			}
			if lo <= 0x7E {
				frags = append(frags, "-"+string(lo))
			}
			if err := checkMeaningless(s, frags); err != nil {
				rec.Fail(t, "meaningless", input{Text: s, Mode: "descending", Want: strings.Join(frags, " ")}, "%v", err)
			}
		} else {
			n := rapid.IntRange(1, 12).Draw(t, "n")
			m := rapid.IntRange(0, n-1).Draw(t, "m")
			if rapid.IntRange(0, 3).Draw(t, "large") == 0 {
				// large counts: nothing has to be built for a range that is rejected
				n = rapid.SampledFrom([]int{100, 255, 256, 1000, 1001, 1024, 2000, 4096, 5000}).Draw(t, "largeN")
				m = n - rapid.SampledFrom([]int{1, 1, 2, 10, 500, n}).Draw(t, "below")
				if m < 0 {
					m = 0
				}
			}
			ms := fmt.Sprint(m)
			if rapid.Bool().Draw(t, "pad") {
				ms = "0" + ms
			}
			lazy := rapid.SampledFrom([]string{"", "?"}).Draw(t, "lazy")
			operand := rapid.SampledFrom([]string{"a", "(ab|c)", "[0-9]", ".", `\d`}).Draw(t, "operand")
			s := ctxPre + operand + fmt.Sprintf("{%d,%s}", n, ms) + lazy + ctxPost
			rec.Case(s, true, "min_above_max")
			rec.Sample("minmax", s)
			if err := checkMeaningless(s, []string{fmt.Sprint(n), fmt.Sprint(m)}); err != nil {
				rec.Fail(t, "meaningless", input{Text: s, Mode: "descending", Want: fmt.Sprintf("%d %d", n, m)}, "%v", err)
			}
		}
	})
}

// Long patterns: the grammar bounds neither the number of items of a pattern nor the nesting of its groups, so no
// counter, stack or table of the parsers may. Every text is written with documented constructs in unambiguous forms.
func TestLongPatterns(t *testing.T) {
	rec.Begin(t)
	rec.Rule(rule + ruleMore)
	if rec.Shard() != 0 {
		t.Skip("seed independent: shard 0 only")
	}
	var texts []string
	for _, n := range []int{100, 249, 250, 251, 255, 256, 257, 300, 511, 512, 1000, 2000} {
		texts = append(texts, strings.Repeat("a", n)+"(y|z)?", strings.Repeat("ab", n/2)+"(c)", "("+strings.Repeat("x", n)+")+", strings.Repeat("[0-9]", n/4)+`(\.[0-9]+)?`)
		texts = append(texts, strings.Repeat("a?b*c+", n/6)+"(d|e)")
	}
	for _, k := range []int{10, 40, 80, 150} {
		var alts []string
		for i := 0; i < k; i++ {
			alts = append(alts, fmt.Sprintf("kw%d(_x)?", i))
		}
		texts = append(texts, strings.Join(alts, "|"), "("+strings.Join(alts, "|")+")+z")
	}
	for _, d := range []int{10, 50, 100, 200, 300} {
		texts = append(texts, strings.Repeat("(", d)+"a"+strings.Repeat(")", d), strings.Repeat("(a|", d)+"b"+strings.Repeat(")", d), strings.Repeat("(", d)+"a"+strings.Repeat(")?", d))
	}
	var items []string
	for i := 0; i < 300; i++ {
		items = append(items, string(rune('a'+i%26)))
	}
	texts = append(texts, strings.Join(items, "|"), "["+strings.Join(items[:26], "")+strings.Repeat("0-9A-Z", 40)+"]+")
	for _, s := range texts {
		e1, e2, perr := parseBoth(s)
		rec.Case(s, true, "long_pattern")
		switch {
		case perr != nil:
			rec.Fail(t, "text", input{Text: s, Mode: "long"}, "pattern of %d characters: %v", len(s), perr)
		case e1 != nil || e2 != nil:
			rec.Fail(t, "text", input{Text: s, Mode: "long"}, "a pattern of %d characters written with documented constructs in unambiguous forms is rejected: nfa.Parse error=%v, ast.Parse error=%v\npattern: %s", len(s), e1, e2, head(s))
		}
	}
	rec.Count("long_patterns", len(texts))
}

func head(s string) string {
	if len(s) > 160 {
		return s[:100] + " ... " + s[len(s)-50:]
	}
	return s
}

// U+FFFD (what a decoder makes of bytes that are not UTF-8) and such bytes themselves inside a text: what follows them
// is part of the text like everything else - an unparsable remainder makes the text no pattern.
func TestReplacementCharacterAndInvalidBytes(t *testing.T) {
	rec.Begin(t)
	rec.Rule(rule + ruleMore)
	if rec.Shard() != 0 {
		t.Skip("seed independent: shard 0 only")
	}
	for _, base := range []string{"ab", "x", "[a-z]+", "(a|b)", "a{2}", ""} {
		for _, bad := range []string{"\uFFFD", "\xff", "\xc3", "\xe4\xb8", "\uFFFD\uFFFD", "\xed\xa0\x80"} {
			for _, junk := range []string{")(", "[9-0]", "{", "\\", "a**", "(", "|*", "[z-a]", "x{3,1}"} {
				s := base + bad + junk
				ok, err := checkText(s)
				rec.Case(s, true, "replacement_character_or_invalid_bytes")
				if err != nil {
					rec.Fail(t, "text", input{Text: s, Mode: "any"}, "%v", err)
				} else if ok {
					rec.Fail(t, "text", input{Text: s, Mode: "any"}, "text %q is accepted although %q cannot be the end of a pattern", s, junk)
				}
			}
		}
	}
}

// Counts that no integer holds: a text with such a count may be rejected (it is grammatical, but nothing can be built
// for it); it must never be accepted as if it said something else, least of all when its minimum exceeds its maximum.
func TestOverflowingCounts(t *testing.T) {
	rec.Begin(t)
	rec.Rule(rule + ruleMore)
	if rec.Shard() != 0 {
		t.Skip("seed independent: shard 0 only")
	}
	for _, big := range []string{"9223372036854775808", "18446744073709551616", "18446744073709551617", "18446744073709551618", "99999999999999999999", "340282366920938463463374607431768211457", "4294967296000000000000"} {
		for _, form := range []string{"a{%s,1}", "a{%s,0}?", "(ab|c){%s,2}", "[0-9]{%s,3}x", "a{%s,%s}", "a{3,%s}", "a{0,%s}", "a{%s}", "a{%s,}"} {
			s := strings.ReplaceAll(form, "%s", big)
			e1, e2, perr := parseBoth(s)
			rec.Case(s, true, "overflowing_count")
			switch {
			case perr != nil:
				rec.Fail(t, "text", input{Text: s, Mode: "overflow"}, "text %q: %v", s, perr)
			case e1 == nil || e2 == nil:
				rec.Fail(t, "text", input{Text: s, Mode: "overflow"}, "text %q has a repetition count that no integer holds, but it is accepted (as which pattern?): nfa.Parse error=%v, ast.Parse error=%v", s, e1, e2)
			}
		}
	}
}

// regression tier: the inputs of repaired defects (known_findings.json, status fixed)
// Class names: \p{Name} is a sentence exactly for the documented category names.  Candidates are every table name
// of the Go unicode package (categories, scripts, properties), which an implementation is likely to look names up in,
// plus names of classes that exist in other notations.
func TestUnicodeClassNames(t *testing.T) {
	rec.Begin(t)
	rec.Rule(rule + ruleMore)
	if rec.Shard() != 0 {
		t.Skip("seed independent: shard 0 only")
	}
	seen := map[string]bool{}
	var names []string
	add := func(n string) {
		if !seen[n] {
			seen[n] = true
			names = append(names, n)
		}
	}
	for n := range unicode.Categories {
		add(n)
	}
	for n := range unicode.Scripts {
		add(n)
	}
	for n := range unicode.Properties {
		add(n)
	}
	for _, n := range []string{"ASCII", "Ascii", "ascii", "Any", "Assigned", "L&", "LC", "Alpha", "Alnum", "Digit", "Word", "Space", "Blank", "Upper", "Lower", "Punct", "Xdigit", "Cntrl", "Graph", "Print",
		"Letter", "Mark", "Number", "Punctuation", "Separator", "Symbol", "Math", "Emoji", "Persian", "Other", "Control", "C", "Cc", "Cf", "Co", "Cs", "Cn", "letter", "LETTER", "lu", "LU", "Greek ", " Greek", "Gre", "Greekk", "", "L ", "Is_L", "IsL", "^L", "L|M", "UTF-8", "Invalid"} {
		add(n)
	}
	sort.Strings(names)
	documented, accepted := 0, 0
	for _, n := range names {
		for _, tpl := range []string{`\p{%s}`, `\P{%s}`, `[\p{%s}]`, `a\p{%s}b`, `[^\P{%s}x]`} {
			s := fmt.Sprintf(tpl, n)
			sentence := ref.IsPatternSentence(s)
			if sentence {
				documented++
			}
			ok, err := checkText(s)
			if ok {
				accepted++
			}
			rec.Case("class-name:"+s, sentence, "unicode_class_name")
			if err != nil {
				rec.Fail(t, "text", input{Text: s, Mode: "any"}, "%v", err)
			}
			if sentence {
				if err := checkCanonical(s); err != nil {
					rec.Fail(t, "text", input{Text: s, Mode: "canonical"}, "%v", err)
				}
			}
		}
	}
	rec.Count("class_name_candidates", len(names))
	rec.Count("class_name_texts_documented", documented)
	rec.Count("class_name_texts_accepted", accepted)
}

// Range end points written as the characters themselves (char_in_range = unicode_char | ascii_char | char, char = all
// characters): every ascending pair of printable ASCII characters, metacharacters included.  Left out are the
// characters that make the text ambiguous or end the group: ']' '\\' '-' as end points, '^' and '[' as first.
func TestRawRangeEndPoints(t *testing.T) {
	rec.Begin(t)
	rec.Rule(rule + ruleMore)
	if rec.Shard() != 0 {
		t.Skip("seed independent: shard 0 only")
	}
	n := 0
	for lo := rune(0x20); lo <= 0x7E; lo++ {
		if strings.ContainsRune(`]\-^[`, lo) {
			continue
		}
		for hi := lo + 1; hi <= 0x7E; hi++ {
			if strings.ContainsRune(`]\-`, hi) {
				continue
			}
			meta := strings.ContainsRune(`|.?*+(){}$`, lo) || strings.ContainsRune(`|.?*+(){}$[`, hi)
			if !meta && (int(lo)*7+int(hi))%5 != 0 {
				continue // a fifth of the pairs without a metacharacter
			}
			for _, s := range []string{"[" + string(lo) + "-" + string(hi) + "]", "x[a" + string(lo) + "-" + string(hi) + "]+"} {
				n++
				rec.Case("raw-range:"+s, meta, "raw_range_end_points")
				if err := checkCanonical(s); err != nil {
					rec.Fail(t, "text", input{Text: s, Mode: "canonical"}, "%v", err)
				}
			}
		}
	}
	// ranges of one character and ranges that end at the last code point, in every escape spelling
	for _, s := range []string{"[0-0]", "[a-a]+", "[\\x41-\\x41]", "[^b-b]", "[\\x10FFFE-\\x10FFFF]", "[a-z\\x10FFFD-\\x10FFFF]+", "[\\x0010FFFF-\\x0010FFFF]", "[\\x10FFFF]", "\\x10FFFF", "[\\xFFFF-\\x10000]", "[\\x7E-\\x7F]", "[\\x7F-\\x80]", "[\\xD7FF-\\xE000]"} {
		n++
		rec.Case("raw-range:"+s, true, "raw_range_end_points")
		if err := checkCanonical(s); err != nil {
			rec.Fail(t, "text", input{Text: s, Mode: "canonical"}, "%v", err)
		}
	}
	rec.Count("raw_range_texts", n)
}

func TestFixedRegressions(t *testing.T) {
	rec.Begin(t)
	if rec.Shard() != 0 {
		t.Skip("seed independent: shard 0 only")
	}
	// ranges whose end points are surrogate code points are ordinary ranges
	for _, s := range []string{`[\xD800-\xE000]`, `[\xDFFE-\xE001]`, `[\xD7FF-\xD800]`, `[\xD800-\xDFFF]`, `[\x0000D800-\x0000E000]`, `[\xFFFD-\xFFFE]`} {
		rec.Case("regression:"+s, true, "regression")
		if err := checkCanonical(s); err != nil {
			rec.Fail(t, "text", input{Text: s, Mode: "canonical"}, "%v", err)
		}
	}
	for _, s := range []string{"a)", "a|", "a**", "a{,2}", `a\`, "a]", "(a))", "[a]]", "a{1}{2}", "", "a{2,1}x)"} {
		ok, err := checkText(s)
		rec.Case("regression:"+s, true, "regression")
		if err != nil {
			rec.Fail(t, "text", input{Text: s, Mode: "any"}, "%v", err)
		}
		if ok {
			rec.Fail(t, "text", input{Text: s, Mode: "any"}, "text %q is accepted as a pattern although it is not a sentence of the documented grammar", s)
		}
	}
}

func TestReplay(t *testing.T) {
	if !rec.IsReplay() {
		t.Skip("not in replay mode")
	}
	_, raw, _ := rec.Replay()
	var in input
	if err := json.Unmarshal(raw, &in); err != nil {
		t.Fatal(err)
	}
	var err error
	switch in.Mode {
	case "canonical":
		err = checkCanonical(in.Text)
	case "long":
		if e1, e2, perr := parseBoth(in.Text); perr != nil {
			err = perr
		} else if e1 != nil || e2 != nil {
			err = fmt.Errorf("a pattern of %d characters written with documented constructs is rejected: nfa.Parse error=%v, ast.Parse error=%v", len(in.Text), e1, e2)
		}
	case "overflow":
		if e1, e2, perr := parseBoth(in.Text); perr != nil {
			err = perr
		} else if e1 == nil || e2 == nil {
			err = fmt.Errorf("text %q has a repetition count that no integer holds, but it is accepted", in.Text)
		}
	case "descending":
		var frags []string
		if in.Want != "" {
			frags = strings.Split(in.Want, " ")
		}
		err = checkMeaningless(in.Text, frags)
	default:
		_, err = checkText(in.Text)
	}
	if err != nil {
		rec.Fail(t, "text", in, "%v", err)
	}
}

// ---------- native fuzz target (thorough tier; `go test -fuzz`) ----------

// FuzzAccepted submits arbitrary short texts (coverage guided) to the oracle for arbitrary texts: accepted by either
// entry point => whole-text sentence of the documented grammar, and both entry points agree.
func FuzzAccepted(f *testing.F) {
	for _, s := range []string{`a`, `(a|b)*c`, `[^a-z0-9_]+?`, `a{2,3}`, `a{2,}?`, `\x41\x00E9`, `[[:alpha:]\d]`, `\p{Lu}`, `^a$`, `a)`, `a|`, `a**`, `a{,2}`, `a\`, `[z-a]`, `a{3,1}`, `[a-]`, `(?:a)`, `\/`, `[\x41-\x5A]`} {
		f.Add(s)
	}
	f.Fuzz(func(t *testing.T, s string) {
		if len(s) > 40 || expansive(s) || strings.Contains(s, `\x`) && wideEscape(s) {
			return
		}
		if _, err := checkText(s); err != nil {
			rec.SetTest("FuzzAccepted")
			rec.WriteReplay("text", input{Text: s, Mode: "any"}, err.Error())
			t.Fatalf("%v", err)
		}
	})
}

var wideRe = regexp.MustCompile(`\\x[0-9A-F]{5,8}`)

// wideEscape: escapes of five and more digits can name end points far apart (legitimately expensive ranges) or no
// code point at all; the generated checks cover them with chosen values, the fuzzer stays below them.
func wideEscape(s string) bool { return wideRe.MatchString(s) }
