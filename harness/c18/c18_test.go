// Package c18 decides property C18: parse callbacks fire in derivation order with the right values; errors abort.
package c18

import (
	"io"
	"sync"
	"encoding/json"
	"errors"
	"fmt"
	"strings"
	"testing"

	"github.com/moorara/algo/lexer"
	algoparser "github.com/moorara/algo/parser"
	"github.com/moorara/algo/parser/lr"
	"pgregory.net/rapid"

	ebnf "github.com/gardenbed/emerge/internal/ebnf/parser"
	"github.com/gardenbed/emerge/internal/vh/gen"
	"github.com/gardenbed/emerge/internal/vh/rec"
	"github.com/gardenbed/emerge/internal/vh/ref"
)

// ruleMore describes what was added to the exploration in the build phase.
const ruleMore = "; large specifications (300 alternatives, 300 nested groups, 70 uses of every operator, 300 rules, 900 operands, 300 token declarations, 100 directives); texts cut after a drawn token and continued with text that cannot be scanned or with a token that cannot follow: the callbacks of everything shifted before must have fired; the injected error is plain, wraps a ParseError of its own, or is joined; evaluation results are tagged values, nil or integers"

func TestMain(m *testing.M) { rec.Main(m, "C18") }

const rule = "valid specification models under random layouts, and a drawn step k and callback kind (token, production, evaluation) at which the callback fails; oracle: the recorded sequence of token and production callbacks equals the post-order " +
	"of an independently computed derivation (tokens in source order with their positions, production indices); every evaluation callback receives exactly the values returned for the body symbols, left to right (unique tags), " +
	"the head takes the position of its first body symbol (none for an empty body); after a failing callback no further callback fires and the returned error wraps the injected one; " +
	"non-trivial = >=20 reductions and a failure strictly inside; distinct by specification text and failure step"

type input struct {
	Text   string `json:"text"`
	Mode   string `json:"mode"` // parse | evaluate
	FailAt int    `json:"fail_at"`
	// mode broken: the text is cut after token FailAt-1 and continued with Tail
	Tail    string `json:"tail,omitempty"`
	Lexical bool   `json:"lexical,omitempty"`
	// FailStep >= 0 (mode broken): the callback of that step fails as well
	FailStep int `json:"fail_step"`
}

// injected errors: a plain one, one that wraps a parse error of its own below its top level (a callback may itself have
// parsed something), and a joined one.  Which one a callback returns is a function of the failing step.
var injectedErrors = []error{
	errors.New("injected callback failure"),
	fmt.Errorf("injected callback failure: %w", &algoparser.ParseError{Description: "inner parse error of the callback", Pos: lexer.Position{Filename: "inner.ebnf", Offset: 7, Line: 3, Column: 4}}),
	errors.Join(errors.New("injected callback failure"), errors.New("and a second one")),
	// an error of the callback that wraps the end-of-input marker of the token source (e.g. from reading a file)
	fmt.Errorf("injected callback failure: %w", io.EOF),
	fmt.Errorf("injected callback failure: %w", io.ErrUnexpectedEOF),
}

func injected(failAt int) error {
	if failAt < 0 {
		failAt = 0
	}
	return injectedErrors[failAt%len(injectedErrors)]
}

type expectation struct {
	toks   []ref.Tok
	events []int // post-order: >= 0 token index, < 0 production -1-i
	tree   *ref.Node
}

func expect(text string) (*expectation, error) {
	toks, lexErr, _ := ref.NewScanner().Scan(text)
	if lexErr != nil {
		return nil, fmt.Errorf("harness: generated text does not scan at %d:%d", lexErr.Line, lexErr.Col)
	}
	tree, errIdx := ref.ParseKinds(ref.Kinds(toks))
	if tree == nil {
		return nil, fmt.Errorf("harness: generated text is not a specification (token %d)", errIdx)
	}
	e := &expectation{toks: toks, tree: tree}
	tree.PostOrder(&e.events)
	return e, nil
}

// checkParse runs Parser.Parse with recording callbacks; failAt >= 0 makes the failAt-th callback fail.
func checkParse(text string, failAt int) (reductions int, err error) {
	e, err := expect(text)
	if err != nil {
		return 0, err
	}
	for _, ev := range e.events {
		if ev < 0 {
			reductions++
		}
	}
	step := 0
	failed := false
	var problem error
	note := func(format string, args ...any) {
		if problem == nil {
			problem = fmt.Errorf(format, args...)
		}
	}
	cb := func(ev int, describe string) error {
		if failed {
			note("callback %s fires after callback %d returned an error", describe, failAt)
		}
		if step >= len(e.events) {
			note("callback %s fires after the derivation is complete (%d events)", describe, len(e.events))
		} else if e.events[step] != ev {
			note("callback %d is %s, the derivation has %s at this step", step, describe, describeEvent(e, e.events[step]))
		}
		step++
		if step-1 == failAt {
			failed = true
			return injected(failAt)
		}
		return nil
	}
	var perr error
	var rerr error
	perr = rec.Guard(func() {
		var p *ebnf.Parser
		p, rerr = ebnf.New("t.ebnf", ref.Source(text))
		if rerr != nil {
			return
		}
		nTok := 0
		rerr = p.Parse(func(tok *lexer.Token) error {
			i := nTok
			nTok++
			if i < len(e.toks) {
				w := e.toks[i]
				if string(tok.Terminal) != w.Kind || tok.Lexeme != w.Lexeme || tok.Pos.Offset != w.Off || tok.Pos.Line != w.Line || tok.Pos.Column != w.Col {
					note("token callback %d receives %s %q at offset %d %d:%d, the %d-th significant token is %s %q at offset %d %d:%d", i, tok.Terminal, tok.Lexeme, tok.Pos.Offset, tok.Pos.Line, tok.Pos.Column, i, w.Kind, w.Lexeme, w.Off, w.Line, w.Col)
				}
			}
			return cb(i, fmt.Sprintf("token %d", i))
		}, func(i int) error {
			return cb(-1-i, fmt.Sprintf("production %d", i))
		})
	})
	if perr != nil {
		return reductions, perr
	}
	if problem != nil {
		return reductions, problem
	}
	if failAt < 0 || failAt >= len(e.events) {
		if rerr != nil {
			return reductions, fmt.Errorf("a valid specification is rejected: %v", rerr)
		}
		if step != len(e.events) {
			return reductions, fmt.Errorf("%d callbacks fired, the derivation has %d steps", step, len(e.events))
		}
		return reductions, oneSided(text, e, failAt)
	}
	if rerr == nil {
		return reductions, fmt.Errorf("callback %d (%s) returned an error, but Parse reports success", failAt, describeEvent(e, e.events[failAt]))
	}
	if !errors.Is(rerr, injected(failAt)) && !strings.Contains(rerr.Error(), "injected callback failure") {
		return reductions, fmt.Errorf("callback %d returned an error, but Parse returns a different one: %v", failAt, rerr)
	}
	if step != failAt+1 {
		return reductions, fmt.Errorf("callback %d failed, but %d callbacks fired in total", failAt, step)
	}
	return reductions, oneSided(text, e, failAt)
}

// checkBrokenTail: the text of a valid specification is cut after its k-th token and continued with text that cannot be
// scanned (lexical) or with a token no specification can continue with (syntax). Everything before the cut is a viable
// prefix, so token 0..k-1 have been shifted when the error is met: their callbacks and the reductions in between must
// have fired, in derivation order, exactly as for the complete text; after a lexical error nothing else may fire, before a
// syntax error only reductions may follow. The parse must return an error.
func checkBrokenTail(text string, k int, tail string, lexical bool) error {
	return checkBrokenTailFailing(text, k, tail, lexical, -1)
}

// checkBrokenTailFailing: in addition the callback of step failAt (an index into the steps before the error in the text)
// fails: the parse stops there and returns that error - the later error in the text is never reached. The same text is
// then evaluated (ParseAndEvaluate): the evaluation callback fires once per reduction before the error, and an
// error it returns at its failAt-th call comes back.
func checkBrokenTailFailing(text string, k int, tail string, lexical bool, failAt int) error {
	e, err := expect(text)
	if err != nil {
		return err
	}
	if k < 1 || k > len(e.toks) {
		return nil
	}
	last := e.toks[k-1]
	runes := []rune(text)
	cut := last.Off + len([]rune(last.Src))
	broken := string(runes[:cut]) + tail
	// what must have happened before the error: the events of the derivation up to the shift of token k-1
	upto := -1
	for i, ev := range e.events {
		if ev == k-1 {
			upto = i
		}
	}
	if upto < 0 {
		return fmt.Errorf("harness: token %d is not in the derivation", k-1)
	}
	want := e.events[:upto+1]
	var got []int
	var rerr error
	if perr := rec.Guard(func() {
		var p *ebnf.Parser
		p, rerr = ebnf.New("t.ebnf", ref.Source(broken))
		if rerr != nil {
			return
		}
		n := 0
		step := func() error {
			if failAt >= 0 && len(got)-1 == failAt {
				return injected(failAt)
			}
			return nil
		}
		rerr = p.Parse(func(tok *lexer.Token) error {
			got = append(got, n)
			n++
			return step()
		}, func(i int) error {
			got = append(got, -1-i)
			return step()
		})
	}); perr != nil {
		return perr
	}
	if rerr == nil {
		return fmt.Errorf("the text %q is no specification (it ends in %q after token %d), but Parse reports success", broken, tail, k-1)
	}
	if failAt >= 0 && failAt < len(want) {
		if !errors.Is(rerr, injected(failAt)) && !strings.Contains(rerr.Error(), "injected callback failure") {
			return fmt.Errorf("callback %d (before the error in the text) returned an error, but Parse returns a different one: %v\ntext: %q", failAt, rerr, broken)
		}
		if len(got) != failAt+1 {
			return fmt.Errorf("callback %d failed, but %d callbacks fired in total\ntext: %q", failAt, len(got), broken)
		}
		want = want[:failAt+1]
	}
	// evaluation of the same text
	{
		wantRed := 0
		for _, ev := range want {
			if ev < 0 {
				wantRed++
			}
		}
		failRed := -1
		if failAt >= 0 && wantRed > 0 {
			failRed = failAt % wantRed
		}
		calls := 0
		var eerr error
		if perr := rec.Guard(func() {
			p, err := ebnf.New("t.ebnf", ref.Source(broken))
			if err != nil {
				eerr = err
				return
			}
			_, eerr = p.ParseAndEvaluate(func(i int, rhs []*lr.Value) (any, error) {
				calls++
				if calls-1 == failRed {
					return nil, injected(failRed)
				}
				return calls, nil
			})
		}); perr != nil {
			return perr
		}
		switch {
		case eerr == nil:
			return fmt.Errorf("the text %q is no specification, but ParseAndEvaluate reports success", broken)
		case failRed >= 0:
			if !errors.Is(eerr, injected(failRed)) && !strings.Contains(eerr.Error(), "injected callback failure") {
				return fmt.Errorf("evaluation call %d (before the error in the text) returned an error, but ParseAndEvaluate returns a different one: %v\ntext: %q", failRed, eerr, broken)
			}
			if calls != failRed+1 {
				return fmt.Errorf("evaluation call %d failed, but %d calls were made\ntext: %q", failRed, calls, broken)
			}
		case lexical && failAt < 0 && calls != wantRed:
			return fmt.Errorf("the text ends in %q after token %d: %d reductions precede the error, but the evaluation callback was called %d times\ntext: %q", tail, k-1, wantRed, calls, broken)
		case !lexical && failAt < 0 && calls < wantRed:
			return fmt.Errorf("the text ends in %q after token %d: %d reductions precede the error, but the evaluation callback was called only %d times\ntext: %q", tail, k-1, wantRed, calls, broken)
		}
	}
	for i := range want {
		if i >= len(got) {
			return fmt.Errorf("the text ends in %q after token %d (%s %q): %d callbacks fired before the error, but the %d tokens before it were shifted and the derivation has %d steps up to that shift; missing: %s\ntext: %q", tail, k-1, last.Kind, last.Lexeme, len(got), k, len(want), describeEvent(e, want[i]), broken)
		}
		if got[i] != want[i] {
			return fmt.Errorf("the text ends in %q after token %d: callback %d is %s, the derivation has %s at this step\ntext: %q", tail, k-1, i, describeEvent(e, got[i]), describeEvent(e, want[i]), broken)
		}
	}
	for _, ev := range got[len(want):] {
		if ev >= 0 || lexical {
			return fmt.Errorf("the text ends in %q after token %d: callback %s fires although no further token can have been shifted\ntext: %q", tail, k-1, describeEvent(e, ev), broken)
		}
	}
	return nil
}

// oneSided: a caller may pass only one of the two callbacks.  With only the production callback the reductions must
// come in the same order (and an error returned at the k-th one must come back); with only the token callback every
// significant token must be delivered.
func oneSided(text string, e *expectation, failAt int) error {
	var prods []int
	for _, ev := range e.events {
		if ev < 0 {
			prods = append(prods, -1-ev)
		}
	}
	failProd := -1 // ordinal of the failing production callback
	if failAt >= 0 && failAt < len(e.events) && e.events[failAt] < 0 {
		for _, ev := range e.events[:failAt] {
			if ev < 0 {
				failProd++
			}
		}
		failProd++
	}
	var got []int
	var rerr error
	if perr := rec.Guard(func() {
		var p *ebnf.Parser
		if p, rerr = ebnf.New("t.ebnf", ref.Source(text)); rerr != nil {
			return
		}
		rerr = p.Parse(nil, func(i int) error {
			got = append(got, i)
			if len(got)-1 == failProd {
				return injected(failAt)
			}
			return nil
		})
	}); perr != nil {
		return fmt.Errorf("Parse(nil, productions): %v", perr)
	}
	want := prods
	if failProd >= 0 {
		want = prods[:failProd+1]
		if rerr == nil {
			return fmt.Errorf("Parse(nil, productions): production callback %d returned an error, but Parse reports success (%d callbacks fired)", failProd, len(got))
		}
	} else if rerr != nil {
		return fmt.Errorf("Parse(nil, productions) rejects a valid specification: %v", rerr)
	}
	if fmt.Sprint(got) != fmt.Sprint(want) {
		return fmt.Errorf("Parse(nil, productions): the production callback fired for %v, the derivation reduces by %v", got, want)
	}
	nTok := 0
	if perr := rec.Guard(func() {
		var p *ebnf.Parser
		if p, rerr = ebnf.New("t.ebnf", ref.Source(text)); rerr != nil {
			return
		}
		rerr = p.Parse(func(tok *lexer.Token) error { nTok++; return nil }, nil)
	}); perr != nil {
		return fmt.Errorf("Parse(tokens, nil): %v", perr)
	}
	if rerr != nil || nTok != len(e.toks) {
		return fmt.Errorf("Parse(tokens, nil): %d token callbacks for %d significant tokens, error %v", nTok, len(e.toks), rerr)
	}
	return nil
}

func describeEvent(e *expectation, ev int) string {
	if ev >= 0 {
		return fmt.Sprintf("token %d (%s %q)", ev, e.toks[ev].Kind, e.toks[ev].Lexeme)
	}
	p := ref.Productions[-1-ev]
	return fmt.Sprintf("production %d (%s -> %s)", -1-ev, p.Head, strings.Join(p.Body, " "))
}

type tag struct{ id int }

// checkEvaluate runs ParseAndEvaluate; every evaluation returns a unique tag.
func checkEvaluate(text string, failAt int) error {
	e, err := expect(text)
	if err != nil {
		return err
	}
	// expected evaluation calls in order: interior nodes in post-order
	type call struct {
		node *ref.Node
		id   int
	}
	var calls []call
	ids := map[*ref.Node]int{}
	var walk func(n *ref.Node)
	walk = func(n *ref.Node) {
		if n.Prod < 0 {
			return
		}
		for _, k := range n.Kids {
			walk(k)
		}
		ids[n] = len(calls)
		calls = append(calls, call{n, len(calls)})
	}
	walk(e.tree)
	// position of a node = position of its first body symbol (nil for an empty body)
	var posOf func(n *ref.Node) *ref.Tok
	posOf = func(n *ref.Node) *ref.Tok {
		if n.Prod < 0 {
			return &e.toks[n.Tok]
		}
		if len(n.Kids) == 0 {
			return nil
		}
		return posOf(n.Kids[0])
	}
	step := 0
	failed := false
	var problem error
	note := func(format string, args ...any) {
		if problem == nil {
			problem = fmt.Errorf(format, args...)
		}
	}
	type keptValue struct {
		v       *lr.Value
		val     any
		pos     *lexer.Position
		call, j int
	}
	var kept []keptValue
	var res *lr.Value
	var rerr error
	perr := rec.Guard(func() {
		var p *ebnf.Parser
		p, rerr = ebnf.New("t.ebnf", ref.Source(text))
		if rerr != nil {
			return
		}
		res, rerr = p.ParseAndEvaluate(func(i int, rhs []*lr.Value) (any, error) {
			if failed {
				note("the evaluation callback fires after call %d returned an error", failAt)
			}
			if step >= len(calls) {
				note("the evaluation callback fires %d times, the derivation has %d reductions", step+1, len(calls))
				step++
				return &tag{-1}, nil
			}
			c := calls[step]
			if i != c.node.Prod {
				note("evaluation call %d is for production %d, the derivation reduces by production %d here", step, i, c.node.Prod)
			} else if len(rhs) != len(c.node.Kids) {
				note("evaluation call %d (production %d) receives %d values, the body has %d symbols", step, i, len(rhs), len(c.node.Kids))
			} else {
				for j, k := range c.node.Kids {
					v := rhs[j]
					if v == nil {
						note("evaluation call %d (production %d): value %d is nil", step, i, j)
						continue
					}
					if k.Prod < 0 {
						w := e.toks[k.Tok]
						if s, ok := v.Val.(string); !ok || s != w.Lexeme {
							note("evaluation call %d (production %d): value %d is %v, the body symbol is the token %s %q", step, i, j, v.Val, w.Kind, w.Lexeme)
						}
					} else if !isResultOf(v.Val, ids[k]) {
						note("evaluation call %d (production %d): value %d is %v, it must be the result of evaluation call %d (%v)", step, i, j, v.Val, ids[k], resultOf(ids[k]))
					}
					wp := posOf(k)
					switch {
					case wp == nil && v.Pos != nil:
						note("evaluation call %d (production %d): value %d has position %s, but it derives the empty string", step, i, j, v.Pos)
					case wp != nil && v.Pos == nil:
						note("evaluation call %d (production %d): value %d has no position, its first symbol is at %d:%d", step, i, j, wp.Line, wp.Col)
					case wp != nil && (v.Pos.Offset != wp.Off || v.Pos.Line != wp.Line || v.Pos.Column != wp.Col):
						note("evaluation call %d (production %d): value %d has position %d:%d (offset %d), its first symbol is at %d:%d (offset %d)", step, i, j, v.Pos.Line, v.Pos.Column, v.Pos.Offset, wp.Line, wp.Col, wp.Off)
					}
				}
			}
			// the value objects handed over are kept (as a tree-building callback keeps its children): what they hold
			// must still be there when the parse is over
			for j, v := range rhs {
				if v != nil {
					kept = append(kept, keptValue{v, v.Val, v.Pos, step, j})
				}
			}
			if step%5 == 3 && len(rhs) > 0 {
				// a callback may itself parse something (a companion specification): the values it was given must be
				// the same afterwards
				before := make([]lr.Value, len(rhs))
				for j, v := range rhs {
					if v != nil {
						before[j] = *v
					}
				}
				if nerr := nestedParse(); nerr != nil {
					note("a parse started from inside evaluation call %d fails: %v", step, nerr)
				}
				for j, v := range rhs {
					if v != nil && (v.Val != before[j].Val || v.Pos != before[j].Pos) {
						note("evaluation call %d (production %d): value %d changed while the callback parsed another specification (was %v at %v, is %v at %v)", step, i, j, before[j].Val, before[j].Pos, v.Val, v.Pos)
					}
				}
			}
			step++
			if step-1 == failAt {
				failed = true
				return nil, injected(failAt)
			}
			return resultOf(c.id), nil
		})
	})
	if perr != nil {
		return perr
	}
	for _, k := range kept {
		if k.v.Val != k.val || k.v.Pos != k.pos {
			note("the value object handed to evaluation call %d as value %d held %v when it was handed over and holds %v after the parse: a callback that keeps its values (a tree builder) finds them altered", k.call, k.j, k.val, k.v.Val)
		}
	}
	if problem != nil {
		return problem
	}
	if failAt < 0 || failAt >= len(calls) {
		if rerr != nil {
			return fmt.Errorf("a valid specification is rejected: %v", rerr)
		}
		if step != len(calls) {
			return fmt.Errorf("%d evaluation calls, the derivation has %d reductions", step, len(calls))
		}
		if res == nil || !isResultOf(res.Val, len(calls)-1) {
			return fmt.Errorf("ParseAndEvaluate does not return the value of the last reduction")
		}
		return nil
	}
	if rerr == nil {
		return fmt.Errorf("evaluation call %d (production %d) returned an error, but ParseAndEvaluate reports success", failAt, calls[failAt].node.Prod)
	}
	if !errors.Is(rerr, injected(failAt)) && !strings.Contains(rerr.Error(), "injected callback failure") {
		return fmt.Errorf("evaluation call %d returned an error, but ParseAndEvaluate returns a different one: %v", failAt, rerr)
	}
	if step != failAt+1 {
		return fmt.Errorf("evaluation call %d failed, but %d calls were made in total", failAt, step)
	}
	return nil
}

// nestedParse evaluates a small companion specification with a callback of its own.
func nestedParse() error {
	p, err := ebnf.New("nested.ebnf", strings.NewReader("grammar nested;\nNUM = /[0-9]+/\n@left \"+\"\nstart = e ;\ne = e \"+\" e | ( e ) | NUM | ;\n"))
	if err != nil {
		return err
	}
	n := 0
	res, err := p.ParseAndEvaluate(func(i int, rhs []*lr.Value) (any, error) {
		n++
		return n, nil
	})
	if err != nil {
		return err
	}
	if res == nil || res.Val != n {
		return fmt.Errorf("the nested parse returns %v after %d reductions", res, n)
	}
	return nil
}

// resultOf is what the evaluation callback returns in its id-th call: mostly a tagged value, sometimes nil (a result
// like any other: it must become the head's value, not be replaced by something else) or a plain integer.
func resultOf(id int) any {
	// results that are nil pointers of a concrete type (no alternatives, no handles, nothing declared): they are values
	// like any other and keep their type
	switch id % 23 {
	case 7:
		return (*int)(nil)
	case 13:
		return (*tag)(nil)
	case 19:
		return (*lr.Value)(nil)
	}
	switch id % 5 {
	case 2:
		return nil
	case 4:
		return id
	case 1:
		// a result that is itself a value object (a callback that boxes its results, or passes one of its values on)
		return boxed(id)
	}
	return &tag{id}
}

var boxes sync.Map // id -> *lr.Value

func boxed(id int) *lr.Value {
	v, _ := boxes.LoadOrStore(id, &lr.Value{Val: fmt.Sprintf("boxed-%d", id), Pos: &lexer.Position{Filename: "boxed", Offset: id, Line: 1000 + id, Column: 7}})
	return v.(*lr.Value)
}

func isResultOf(v any, id int) bool {
	switch id % 23 {
	case 7:
		x, ok := v.(*int)
		return ok && x == nil
	case 13:
		x, ok := v.(*tag)
		return ok && x == nil
	case 19:
		x, ok := v.(*lr.Value)
		return ok && x == nil
	}
	switch w := resultOf(id).(type) {
	case nil:
		return v == nil
	case int:
		x, ok := v.(int)
		return ok && x == w
	case *lr.Value:
		x, ok := v.(*lr.Value)
		return ok && x == w
	default:
		tg, ok := v.(*tag)
		return ok && tg.id == id
	}
}

func TestCallbacks(t *testing.T) {
	rec.Rule(rule + ruleMore)
	opts := gen.SpecOpts{MaxRules: 3, Depth: 4, Literals: []string{"a", "b", `\"`}, Tokens: []string{"TK", "NUM"}, Directives: 3, RuleHandles: true, DupRules: true, EmptyRules: true}
	rec.Check(t, 2500, 120000, func(t *rapid.T) {
		var text string
		if rapid.IntRange(0, 19).Draw(t, "tiny") == 0 {
			text = rapid.SampledFrom([]string{"grammar g", "grammar g;", "grammar g; start = ;", "grammar g a = ; b = ;"}).Draw(t, "tinySpec")
		} else {
			m := gen.Spec(t, opts)
			toks := m.Tokens()
			text, _ = ref.Render(toks, gen.Seps(t, toks))
		}
		e, err := expect(text)
		if err != nil {
			t.Fatalf("%v\n%s", err, text)
		}
		mode := rapid.SampledFrom([]string{"parse", "parse", "evaluate", "evaluate", "plain", "broken"}).Draw(t, "mode")
		if mode == "broken" {
			k := rapid.IntRange(1, len(e.toks)).Draw(t, "cutAfter")
			lexical := rapid.Bool().Draw(t, "lexical")
			tail := rapid.SampledFrom([]string{" ~", "\n#", " \"open", " 'x'", " @lef ;", "\t\x01", " $ x"}).Draw(t, "lexicalTail")
			if !lexical {
				// tokens that cannot follow: the parser may reduce before it reports them, it cannot shift
				// a token that cannot follow (decided by the reference recogniser): the parser may reduce before it reports it
				tail = ""
				cands := rapid.Permutation([]string{"=", ")", ">", "}}", "]", "}", "|", ";", "<", "@left"}).Draw(t, "syntaxTail")
				for _, c := range cands {
					ks := append(append([]string{}, ref.Kinds(e.toks[:k])...), c)
					if _, bad := ref.ParseKinds(ks); bad == k {
						tail = " " + c + " " + c
						break
					}
				}
				if tail == "" {
					t.Skip("every candidate can follow")
				}
			}
			cls := "broken_tail_syntax"
			if lexical {
				cls = "broken_tail_lexical"
			}
			failStep := -1
			if rapid.Bool().Draw(t, "callbackFailsBeforeTheError") {
				failStep = rapid.IntRange(0, 2*k).Draw(t, "failStep")
				cls += "_and_failing_callback"
			}
			rec.Case(fmt.Sprintf("%s|broken|%d|%s|%d", text, k, tail, failStep), len(e.events) >= 20 && k > 1 && k < len(e.toks), cls)
			if cerr := checkBrokenTailFailing(text, k, tail, lexical, failStep); cerr != nil {
				rec.Fail(t, "callbacks", input{Text: text, Mode: "broken", FailAt: k, Tail: tail, Lexical: lexical, FailStep: failStep}, "%v", cerr)
			}
			return
		}
		failAt := -1
		nred := 0
		for _, ev := range e.events {
			if ev < 0 {
				nred++
			}
		}
		switch mode {
		case "parse":
			failAt = rapid.IntRange(0, len(e.events)-1).Draw(t, "failAt")
		case "evaluate":
			failAt = rapid.IntRange(0, nred-1).Draw(t, "failAt")
		}
		cls := []string{"mode_" + mode}
		if failAt >= 0 && mode == "parse" {
			if e.events[failAt] >= 0 {
				cls = append(cls, "token_callback_fails")
			} else if len(ref.Productions[-1-e.events[failAt]].Body) == 0 {
				cls = append(cls, "fails_at_empty_production")
			} else {
				cls = append(cls, "production_callback_fails")
			}
		}
		inside := failAt > 0 && ((mode == "parse" && failAt < len(e.events)-1) || (mode == "evaluate" && failAt < nred-1))
		rec.Case(fmt.Sprintf("%s|%s|%d", text, mode, failAt), nred >= 20 && inside, cls...)
		rec.Sample(mode, map[string]any{"text": text, "mode": mode, "fail_at": failAt, "reductions": nred})
		var cerr error
		if mode == "evaluate" {
			cerr = checkEvaluate(text, failAt)
		} else {
			_, cerr = checkParse(text, failAt)
			if cerr == nil && mode == "plain" {
				cerr = checkEvaluate(text, -1)
			}
		}
		if cerr != nil {
			m := mode
			if m == "plain" {
				m = "parse"
			}
			rec.Fail(t, "callbacks", input{Text: text, Mode: m, FailAt: failAt}, "%v\nspecification:\n%s", cerr, text)
		}
	})
}

// TestLargeSpecifications: hundreds of alternatives, nested groups, repetitions, operands, rules, declarations and
// directives (gen.BigModels): the callbacks fire in derivation order with the right values however deep the stacks get.
func TestLargeSpecifications(t *testing.T) {
	rec.Begin(t)
	rec.Rule(rule + ruleMore)
	if rec.Shard() != 0 {
		t.Skip("seed independent: shard 0 only")
	}
	for _, m := range gen.BigModels() {
		text, _ := gen.BigText(m)
		e, err := expect(text)
		if err != nil {
			t.Fatalf("harness: %v", err)
		}
		nred := 0
		for _, ev := range e.events {
			if ev < 0 {
				nred++
			}
		}
		fail := func(mode string, failAt int, cerr error) {
			if cerr != nil {
				rec.Fail(t, "callbacks", input{Text: text, Mode: mode, FailAt: failAt}, "large specification %s (%d tokens, %d reductions): %v", m.Name, len(e.toks), nred, cerr)
			}
		}
		rec.Case(text, true, "large_specification")
		_, cerr := checkParse(text, -1)
		fail("parse", -1, cerr)
		fail("evaluate", -1, checkEvaluate(text, -1))
		for _, at := range []int{len(e.events) / 2, len(e.events) - 2} {
			_, cerr := checkParse(text, at)
			fail("parse", at, cerr)
		}
		for _, at := range []int{nred / 2, nred - 1} {
			fail("evaluate", at, checkEvaluate(text, at))
		}
		for _, k := range []int{len(e.toks) / 2, len(e.toks) - 1} {
			if cerr := checkBrokenTail(text, k, " ~", true); cerr != nil {
				rec.Fail(t, "callbacks", input{Text: text, Mode: "broken", FailAt: k, Tail: " ~", Lexical: true}, "large specification %s: %v", m.Name, cerr)
			}
		}
	}
}

func TestReplay(t *testing.T) {
	if !rec.IsReplay() {
		t.Skip("not in replay mode")
	}
	_, raw, _ := rec.Replay()
	var in input
	if err := json.Unmarshal(raw, &in); err != nil {
		t.Fatal(err)
	}
	var err error
	if in.Mode == "broken" {
		fs := in.FailStep
		if fs == 0 && !strings.Contains(string(raw), "fail_step") {
			fs = -1
		}
		err = checkBrokenTailFailing(in.Text, in.FailAt, in.Tail, in.Lexical, fs)
	} else if in.Mode == "evaluate" {
		err = checkEvaluate(in.Text, in.FailAt)
	} else {
		_, err = checkParse(in.Text, in.FailAt)
		if err == nil && in.FailAt < 0 {
			err = checkEvaluate(in.Text, -1)
		}
	}
	if err != nil {
		rec.Fail(t, "callbacks", in, "%v", err)
	}
}
