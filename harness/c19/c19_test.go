// Package c19 decides property C19: the compiled emitted lexer tokenises input exactly as the token automaton says.
package c19

import (
	"sort"
	"unicode/utf8"
	"encoding/json"
	"errors"
	"flag"
	"fmt"
	"os"
	"path/filepath"
	"strings"
	"testing"

	auto "github.com/moorara/algo/automata"
	"pgregory.net/rapid"

	"github.com/gardenbed/emerge/internal/ebnf/parser/spec"
	"github.com/gardenbed/emerge/internal/vh/emit"
	"github.com/gardenbed/emerge/internal/vh/rec"
)

// ruleMore describes what was added to the exploration in the build phase.
const ruleMore = "; token pool covers every UTF-8 length class with the first and last lead byte of each; single lexemes of up to 4080 bytes; inputs derived from the automaton: a shortest text into every state (alone and followed by a stray character) and both end points of every character range of every transition; classes with hundreds and thousands of symbols (\\p{Greek}, a 20992 character range); NUL characters"

func TestMain(m *testing.M) {
	rec.Init("C19")
	_ = flag.Set("rapid.shrinktime", "20s") // every shrink attempt compiles a batch
	rec.Run(m)
}

const rule = "accepted specifications (keyword/identifier overlaps, tokens named WS/EOL/COMMENT, whitespace matched by no token / by a skipped token / by a reported token, multi-byte tokens) x input texts (token sequences with random separators, " +
	"near misses, invalid continuations, multi-byte characters) x padding that moves tokens across the 4096-byte halves of the emitted reader x with/without final newline x short reads; the emitted package is compiled and run; " +
	"oracle: a reference loop over the automaton emerge computed (longest run, owner of the state reached or lexical error, WS/EOL/COMMENT skipped, unmatched space/tab/CR/LF discarded at a token start, exact lexeme, line and column in characters, " +
	"offset in characters or bytes consistently, end of input after the last token); non-trivial = input longer than 4096 bytes, or with a multi-byte character, or with a skipped token; distinct by specification and input"

type input struct {
	Spec  string `json:"spec"`
	Input string `json:"input"`
	Chunk int    `json:"chunk"`
}

type tokDef struct {
	decl    string   // declaration line ("" for a literal)
	use     string   // how the start rule refers to it
	samples []string // valid lexemes
}

var identTokens = []tokDef{
	{"ID = /[a-z][a-z0-9_]*/", "ID", []string{"x", "foo", "if1", "in_", "integer", "a9"}},
	{"", `"if"`, []string{"if"}}, {"", `"in"`, []string{"in"}}, {"", `"int"`, []string{"int"}},
}

// manyKeywords: with all of them the identifier token owns far more than sixteen accepting states
var manyKeywords = []string{"var", "val", "vat", "vary", "void", "while", "when", "where", "with", "do", "done", "down", "def", "del", "delta", "define"}

var otherTokens = []tokDef{
	{"NUM = /[0-9]+/", "NUM", []string{"0", "42", "007"}},
	{"FLT = /[0-9]+\\.[0-9]+/", "FLT", []string{"1.5", "0.25"}},
	{"STR = $STRING", "STR", []string{`"s"`, `"a\"b"`, `"x+y"`}},
	{"", `"+"`, []string{"+"}}, {"", `"++"`, []string{"++"}}, {"", `"="`, []string{"="}}, {"", `"=="`, []string{"=="}}, {"", `"("`, []string{"("}}, {"", `")"`, []string{")"}},
	{"EACUTE = /\\x00E9+/", "EACUTE", []string{"é", "ééé"}},
	{"CJK = /[\\x4E2D\\x6587]+/", "CJK", []string{"中", "中文", "文中文"}},
	{"EMOJI = /\\x0001F600/", "EMOJI", []string{"😀"}},
	{"ARROW = /->|=>/", "ARROW", []string{"->", "=>"}},
	// every length class and the first and last lead byte of each: C2/DF (two bytes), E0/ED/EE/EF (three), F0/F4 (four)
	{"CYR = /[\\x0430-\\x044F]+/", "CYR", []string{"да", "привет", "я"}},
	{"HEB = /[\\x05D0-\\x05EA]+/", "HEB", []string{"שלום", "א"}},
	// a state that is not accepting and has the highest number (the text after the dot), large symbol classes
	{"PATH = /[A-Z]+(\\.[A-Z]+)*/", "PATH", []string{"A", "AB.C", "X.Y.Z"}},
	// the same repetition as ID behind a prefix; a string whose characters are all but two ASCII ones plus a non-ASCII one
	{"VAR = /\\$[a-z][a-z0-9_]*/", "VAR", []string{"$a", "$abc", "$x9_y"}},
	{"QSTR = /'([^'\\x0A]|\\x00E9)*'/", "QSTR", []string{"''", "'abc'", "'é x'"}},
	{"CSV = /%[0-9]+(,[0-9]+)*/", "CSV", []string{"%1", "%1,22", "%0,0,0"}},
	{"GREEK = /\\p{Greek}+/", "GREEK", []string{"αβγ", "\u0370\u03ff", "ἀ\u1ffe", "ϿͰ"}},
	{"HAN = /[\\x4E00-\\x9FFF]+/", "HAN", []string{"漢字", "\u4e00\u9fff", "\u9fff"}},
	{"EDGE = /[\\x0080\\x07FF\\x0800\\xD7FF\\xE000\\xFFEE\\x00010000\\x0010FFFF]+/", "EDGE", []string{"\u0080", "\u07ff", "\u0800", "\ud7ff", "\ue000", "\uffee", "\U00010000", "\U0010FFFF", "\u07ff\u0800\U0010FFFF\u0080"}},
}

// whitespace / comment variants
var wsVariants = [][]tokDef{
	{}, // no token matches whitespace: it is discarded automatically
	{{"WS = $WS", "WS", []string{" ", "\t", "\n"}}},
	{{"SPACE = /[\\x20\\x09]+/", "SPACE", []string{" ", "  ", " \t "}}},
	{{"EOL = /\\x0A/", "EOL", []string{"\n"}}},
	{{"NL = /\\x0A/", "NL", []string{"\n"}}, {"IND = /\\x09+/", "IND", []string{"\t", "\t\t"}}},
	{{"WS = /[\\x20\\x09\\x0A\\x0D]+/", "WS", []string{" ", " \n\t", "\r\n"}}},
}

var commentVariants = [][]tokDef{
	{},
	{{"COMMENT = /#[a-z ]*/", "COMMENT", []string{"#", "# note", "#abc def"}}},
	{{"CMT = /#[a-z ]*/", "CMT", []string{"#", "# kept"}}},
	{{"COMMENT = /\\x2F\\x2F[a-z ]*/", "COMMENT", []string{"//", "// c"}}},
	// a skipped token with characters of several bytes (positions after it are counted in one unit throughout)
	{{"COMMENT = /#[a-z \\x00E9\\x4E2D]*/", "COMMENT", []string{"#", "# café", "#中文 é"}}},
}

type specGen struct {
	src  string
	defs []tokDef
}

func genSpec(t *rapid.T) specGen {
	var defs []tokDef
	if rapid.IntRange(0, 3).Draw(t, "idents") != 0 {
		defs = append(defs, identTokens[0])
		for _, kw := range identTokens[1:] {
			if rapid.Bool().Draw(t, "kw") {
				defs = append(defs, kw)
			}
		}
		if rapid.IntRange(0, 3).Draw(t, "manyKeywords") == 0 {
			for _, w := range manyKeywords {
				defs = append(defs, tokDef{"", `"` + w + `"`, []string{w}})
			}
		}
	}
	others := rapid.SliceOfNDistinct(rapid.SampledFrom(otherTokens), 1, 5, func(d tokDef) string { return d.use }).Draw(t, "others")
	defs = append(defs, others...)
	defs = append(defs, rapid.SampledFrom(wsVariants).Draw(t, "ws")...)
	defs = append(defs, rapid.SampledFrom(commentVariants).Draw(t, "comment")...)
	var b strings.Builder
	b.WriteString("grammar lexme;\n")
	var uses []string
	for _, d := range defs {
		if d.decl != "" {
			b.WriteString(d.decl + "\n")
		}
		uses = append(uses, d.use)
	}
	fmt.Fprintf(&b, "start = { %s };\n", strings.Join(uses, " | "))
	return specGen{src: b.String(), defs: defs}
}

type prepared struct {
	specGen
	sp    *spec.Spec
	dfa   *auto.DFA
	owner map[auto.State]string
}

func prepare(g specGen) (*prepared, bool, error) {
	p := &prepared{specGen: g, owner: map[auto.State]string{}}
	var perr, derr error
	if e := rec.Guard(func() {
		p.sp, perr = spec.Parse("l.ebnf", strings.NewReader(g.src))
		if perr == nil {
			d, m, err := p.sp.DFA()
			p.dfa, derr = d, err
			for a, ss := range m {
				for _, s := range ss {
					p.owner[s] = string(a)
				}
			}
		}
	}); e != nil {
		if rec.QueuePanic(e) {
			return nil, false, nil // listed dependency finding, identified by its call site: the specification is skipped
		}
		return nil, false, e
	}
	if perr != nil || derr != nil {
		return nil, false, nil
	}
	if p.dfa.Final.Contains(p.dfa.Start) {
		return nil, false, nil // a token that matches the empty string: no sensible token stream exists
	}
	return p, true, nil
}

// coverInputs derives inputs from the automaton itself: for every state a shortest text that reaches it (alone, and
// followed by a character no token continues with), and for every transition the first and the last character of
// each run of consecutive characters that lead to the same state. They make the lexer stop in every state and
// step over both ends of every character range.
func coverInputs(p *prepared) []string {
	var syms []rune
	for _, a := range p.dfa.Symbols() {
		if r := rune(a); r > 0 && utf8.ValidRune(r) {
			syms = append(syms, r)
		}
	}
	sort.Slice(syms, func(i, j int) bool { return syms[i] < syms[j] })
	path := map[auto.State]string{p.dfa.Start: ""}
	order := []auto.State{p.dfa.Start}
	seen := map[string]bool{}
	var out []string
	add := func(x string) {
		if x != "" && !seen[x] && len(out) < 400 {
			seen[x] = true
			out = append(out, x)
		}
	}
	for i := 0; i < len(order); i++ {
		s := order[i]
		add(path[s])
		add(path[s] + "\x01")
		add(path[s] + " " + path[s])
		var lo, prev rune
		to := auto.State(-1)
		flush := func() {
			if to >= 0 {
				add(path[s] + string(lo))
				add(path[s] + string(prev))
				add(path[s] + string(prev) + string(lo))
			}
		}
		for _, r := range syms {
			nx := p.dfa.Next(s, auto.Symbol(r))
			if nx >= 0 {
				if _, ok := path[nx]; !ok {
					path[nx] = path[s] + string(r)
					order = append(order, nx)
				}
			}
			if to >= 0 && nx == to && r == prev+1 {
				prev = r
				continue
			}
			flush()
			lo, prev, to = r, r, nx
		}
		flush()
	}
	return out
}

type expTok struct {
	T, L              string
	ORunes, OBytes    int
	Line, Col         int
}

// reference is the token stream the automaton prescribes.
func reference(p *prepared, text string) (toks []expTok, end string, errLine, errCol int, skipped bool) {
	rs := []rune(text)
	pos, bytesOff, line, col := 0, 0, 1, 1
	advance := func(r rune) {
		bytesOff += len(string(r))
		if r == '\n' {
			line++
			col = 1
		} else {
			col++
		}
	}
	for pos < len(rs) {
		state := p.dfa.Start
		j := pos
		for j < len(rs) {
			nx := p.dfa.Next(state, auto.Symbol(rs[j]))
			if nx < 0 {
				break
			}
			state = nx
			j++
		}
		if j == pos {
			if r := rs[pos]; r == ' ' || r == '\t' || r == '\n' || r == '\r' {
				advance(r)
				pos++
				continue
			}
			return toks, "ERR", line, col, skipped
		}
		o, ok := p.owner[state]
		if !ok || !p.dfa.Final.Contains(state) {
			return toks, "ERR", line, col, skipped
		}
		if o == "WS" || o == "EOL" || o == "COMMENT" {
			skipped = true
		} else {
			toks = append(toks, expTok{T: o, L: string(rs[pos:j]), ORunes: pos, OBytes: bytesOff, Line: line, Col: col})
		}
		for _, r := range rs[pos:j] {
			advance(r)
		}
		pos = j
	}
	return toks, "EOF", 0, 0, skipped
}

func compare(p *prepared, text string, res *emit.LexResult) error {
	want, end, eline, ecol, _ := reference(p, text)
	show := text
	if len(show) > 300 {
		show = fmt.Sprintf("%s ... (%d bytes) ... %s", show[:120], len(text), show[len(show)-120:])
	}
	ctx := fmt.Sprintf("\ninput: %q\nspecification:\n%s", show, p.src)
	byRunes, byBytes := true, true
	for i := 0; i < len(want) || i < len(res.Toks); i++ {
		if i >= len(res.Toks) {
			return fmt.Errorf("token %d is missing: the automaton prescribes %s %q at %d:%d; the lexer ended with %q after %d tokens%s", i, want[i].T, want[i].L, want[i].Line, want[i].Col, res.End, len(res.Toks), ctx)
		}
		g := res.Toks[i]
		if i >= len(want) {
			return fmt.Errorf("extra token %d: %s %q at %d:%d (the automaton prescribes %d tokens, then %s)%s", i, g.T, g.L, g.Y, g.X, len(want), end, ctx)
		}
		w := want[i]
		if g.T != w.T || g.L != w.L {
			return fmt.Errorf("token %d is %s %q, the automaton prescribes %s %q (at %d:%d)%s", i, g.T, g.L, w.T, w.L, w.Line, w.Col, ctx)
		}
		if g.Y != w.Line || g.X != w.Col {
			return fmt.Errorf("token %d (%s %q) is reported at line %d column %d, it starts at line %d column %d%s", i, g.T, g.L, g.Y, g.X, w.Line, w.Col, ctx)
		}
		byRunes = byRunes && g.O == w.ORunes
		byBytes = byBytes && g.O == w.OBytes
		if !byRunes && !byBytes {
			return fmt.Errorf("token %d (%s %q) is reported at offset %d; it starts at character %d / byte %d (offsets must be consistently characters or bytes)%s", i, g.T, g.L, g.O, w.ORunes, w.OBytes, ctx)
		}
		if g.F != "input.txt" {
			return fmt.Errorf("token %d carries the file name %q%s", i, g.F, ctx)
		}
	}
	switch {
	case end == "EOF" && res.End != "EOF":
		return fmt.Errorf("after the last token the lexer reports %q instead of the end of the input%s", res.End, ctx)
	case end == "ERR" && !strings.HasPrefix(res.End, "ERR "):
		return fmt.Errorf("the automaton stops in a non-accepting state at %d:%d (lexical error), the lexer reports %q%s", eline, ecol, res.End, ctx)
	case end == "ERR":
		if strings.Contains(res.End, "%!") {
			return fmt.Errorf("the lexical error at %d:%d is reported with a garbled text (the offending lexeme was used as a format): %q%s", eline, ecol, res.End, ctx)
		}
		if pos := fmt.Sprintf("input.txt:%d:%d", eline, ecol); !rec.MentionsPos(res.End, "input.txt", eline, ecol) {
			return fmt.Errorf("the lexical error is at %s, the lexer reports %q%s", pos, res.End, ctx)
		}
	}
	return nil
}

// longUnit: tokens whose lexemes can be made long by repeating a unit.
var longUnit = map[string]string{"ID": "ab9_", "NUM": "90", "STR": "xy+", "CYR": "яд", "CJK": "中文", "EACUTE": "é"}

var nearMisses = []string{"1.", "@", "\"abc", "~", "1.x", "é", "\x01", "-", "=>>", "#A", "ж", "\u07ff", "\U0010FFFF", "\f", "\v", "\x1c", "\x1f", "\u0085", "\u00a0", "\u2028", "\u3000", "\x00", "\x00\x00", "\x00;", "\"50%", "%d%s", "100%!", "%v", "\"%"}

func genInput(t *rapid.T, p *prepared) string {
	var b strings.Builder
	n := rapid.IntRange(0, 25).Draw(t, "pieces")
	pad := rapid.IntRange(0, 5).Draw(t, "padMode")
	target := 0
	if pad >= 3 {
		target = rapid.SampledFrom([]int{4096, 8192, 12288}).Draw(t, "boundary") + rapid.IntRange(-6, 3).Draw(t, "delta")
	}
	sep := func() string {
		return rapid.SampledFrom([]string{" ", " ", "\n", "\t", "\r\n", "  ", ""}).Draw(t, "sep")
	}
	piece := func() string {
		if rapid.IntRange(0, 14).Draw(t, "miss") == 0 {
			return rapid.SampledFrom(nearMisses).Draw(t, "nearMiss")
		}
		d := rapid.SampledFrom(p.defs).Draw(t, "def")
		if unit, ok := longUnit[d.use]; ok && rapid.IntRange(0, 24).Draw(t, "longLexeme") == 0 {
			// one lexeme of up to just below one buffer half (the documented bound of the two-buffer scheme)
			n := rapid.SampledFrom([]int{300, 1000, 2040, 2049, 2060, 3000, 3500, 4000, 4080}).Draw(t, "lexemeBytes")
			body := strings.Repeat(unit, n/len(unit))
			if d.use == "STR" {
				return `"` + body + `"`
			}
			return body
		}
		return rapid.SampledFrom(d.samples).Draw(t, "lexeme")
	}
	at := rapid.IntRange(0, n).Draw(t, "padAt")
	for i := 0; i < n; i++ {
		if i == at && target > 0 {
			// filler made of valid pieces until the next piece starts near the boundary
			for b.Len() < target-40 {
				d := p.defs[(b.Len()/7)%len(p.defs)]
				b.WriteString(d.samples[(b.Len()/3)%len(d.samples)])
				b.WriteString([]string{" ", "\n", " ", "\t"}[(b.Len()/5)%4])
			}
			for b.Len() < target {
				b.WriteString(" ")
			}
		}
		b.WriteString(piece())
		b.WriteString(sep())
	}
	s := b.String()
	if rapid.Bool().Draw(t, "trimFinal") {
		s = strings.TrimRight(s, " \t\r\n")
	}
	return s
}

func classify(p *prepared, text string) (bool, []string) {
	_, end, _, _, skipped := reference(p, text)
	var cls []string
	multi := false
	for _, r := range text {
		if r >= 0x80 {
			multi = true
		}
	}
	if len(text) > 4096 {
		cls = append(cls, "longer_than_one_half")
	}
	run := 0
	for _, r := range text {
		if r == ' ' || r == '\n' || r == '\t' || r == '\r' {
			run = 0
		} else if run++; run == 2000 {
			cls = append(cls, "lexeme_longer_than_2000")
		}
	}
	if len(text) > 8192 {
		cls = append(cls, "longer_than_the_buffer")
	}
	if multi {
		cls = append(cls, "multi_byte")
	}
	if skipped {
		cls = append(cls, "skipped_token")
	}
	if end == "ERR" {
		cls = append(cls, "lexical_error")
	}
	if !strings.HasSuffix(text, "\n") {
		cls = append(cls, "no_final_newline")
	}
	return len(text) > 4096 || multi || skipped, cls
}

func head(s string) string {
	if len(s) > 200 {
		return s[:200] + "..."
	}
	return s
}

type caseT struct {
	p     *prepared
	text  string
	chunk int
}

// runBatch compiles the specifications and runs every (specification, input) case.
func runBatch(ps []*prepared, cases []caseT) (failed *caseT, err error) {
	b, err := emit.NewBatch()
	if err != nil {
		return nil, err
	}
	defer b.Close()
	names := map[*prepared]string{}
	for _, p := range ps {
		var name string
		var gerr error
		if g := rec.Guard(func() { name, gerr = b.Add(p.sp) }); g != nil || gerr != nil {
			return &caseT{p: p}, fmt.Errorf("generation fails for an accepted specification: %v %v\nspecification:\n%s", g, gerr, p.src)
		}
		names[p] = name
	}
	bin, err := b.Build()
	if errors.Is(err, emit.ErrHarness) {
		fmt.Println("HARNESS:", err)
		os.Exit(4) // inconclusive: the export shim no longer fits the emitted code
	}
	if err != nil {
		for _, p := range ps {
			if strings.Contains(err.Error(), names[p]+"/") {
				return &caseT{p: p}, fmt.Errorf("the emitted package does not compile: %v\nspecification:\n%s", err, p.src)
			}
		}
		return &caseT{p: ps[0]}, fmt.Errorf("the emitted packages do not compile: %v", err)
	}
	var jobs []emit.Job
	for i, c := range cases {
		f := filepath.Join(b.Dir, fmt.Sprintf("in%d.txt", i))
		if err := os.WriteFile(f, []byte(c.text), 0o644); err != nil {
			return nil, err
		}
		jobs = append(jobs, emit.Job{Pkg: names[c.p], Mode: "lex", File: f, Chunk: c.chunk, MaxToks: len(c.text) + 10})
	}
	raw, err := emit.Run(bin, jobs)
	if err != nil {
		// a crash or a hang of the driver: find the case by running them one by one
		for i := range cases {
			_, e1 := emit.Run(bin, jobs[i:i+1])
			if e1 == emit.ErrSpinning {
				return &cases[i], fmt.Errorf("the emitted lexer does not reach the end of this input: it used %v of processor time without a result (such an input takes milliseconds)\ninput of %d bytes: %q\nspecification:\n%s", emit.SpinCPU, len(cases[i].text), head(cases[i].text), cases[i].p.src)
			}
			if e1 == emit.ErrTimeout {
				rec.Count("inconclusive_driver_starved", 1) // a busy machine, not a verdict
				continue
			}
			if e1 != nil {
				return &cases[i], fmt.Errorf("the emitted lexer crashes: %v\ninput: %q\nspecification:\n%s", e1, head(cases[i].text), cases[i].p.src)
			}
		}
		if err == emit.ErrTimeout || err == emit.ErrSpinning {
			// the batch as a whole was starved (or its sum of work hit the limit) but no single case shows it: not a verdict
			rec.Count("inconclusive_batch_starved", 1)
			return nil, nil
		}
		return nil, err
	}
	for i := range cases {
		var res emit.LexResult
		if err := json.Unmarshal(raw[i], &res); err != nil {
			return &cases[i], err
		}
		if err := compare(cases[i].p, cases[i].text, &res); err != nil {
			return &cases[i], err
		}
	}
	return nil, nil
}

func TestBatches(t *testing.T) {
	rec.Rule(rule + ruleMore)
	rec.Assume("token definitions that match the empty string are not generated (no token stream is defined for them); a lexeme (token, skipped token or comment) is shorter than one buffer half (4096 bytes), the documented limit of the two-buffer scheme")
	rec.Check(t, 3, 96, func(t *rapid.T) {
		var ps []*prepared
		for len(ps) < 8 {
			p, ok, err := prepare(genSpec(t))
			if err != nil {
				t.Fatalf("%v", err)
			}
			if ok {
				ps = append(ps, p)
			} else {
				rec.Count("skipped_not_accepted", 1)
			}
		}
		var cases []caseT
		for _, p := range ps {
			cover := coverInputs(p)
			if len(cover) > 60 {
				cover = rapid.Permutation(cover).Draw(t, "cover")[:60]
			}
			for _, text := range cover {
				nt, cls := classify(p, text)
				rec.Case(p.src+"\x00"+text, nt, append(cls, "state_and_range_cover")...)
				cases = append(cases, caseT{p, text, 0})
			}
			for k := 0; k < 14; k++ {
				text := genInput(t, p)
				chunk := rapid.SampledFrom([]int{0, 0, 0, 1, 7, 4096, 5000}).Draw(t, "chunk")
				nt, cls := classify(p, text)
				if chunk > 0 {
					cls = append(cls, "short_reads")
				}
				rec.Case(p.src+"\x00"+text, nt, cls...)
				if nt && len(text) < 300 {
					rec.Sample(strings.Join(cls, ","), map[string]string{"spec": p.src, "input": text})
				}
				cases = append(cases, caseT{p, text, chunk})
			}
		}
		if failed, err := runBatch(ps, cases); err != nil {
			if failed == nil {
				t.Fatalf("harness: %v", err)
			}
			rec.Fail(t, "case", input{Spec: failed.p.src, Input: failed.text, Chunk: failed.chunk}, "%v", err)
		}
	})
}

// boundary sweep: one lexer, one text, every length around the buffer-half boundaries
func TestBoundarySweep(t *testing.T) {
	rec.Begin(t)
	rec.Rule(rule + ruleMore)
	if rec.Shard() != 0 {
		t.Skip("seed independent: shard 0 only")
	}
	g := specGen{src: "grammar sweep;\nID = /[a-z][a-z0-9_]*/\nNUM = /[0-9]+/\nNL = /\\x0A/\nCJK = /[\\x4E2D\\x6587]+/\nstart = { ID | NUM | NL | CJK | \"=\" | \"==\" | \"if\" };\n"}
	p, ok, err := prepare(g)
	if err != nil || !ok {
		t.Fatalf("harness: sweep specification not accepted: %v", err)
	}
	unit := "x = 1\nyy == 22\nif zz9 中文 = 3\n"
	var long strings.Builder
	for long.Len() < 3*4096 {
		long.WriteString(unit)
	}
	full := long.String()
	var cases []caseT
	for _, b := range []int{4096, 8192, 12288} {
		for d := -8; d <= 8; d++ {
			n := b + d
			for n > 0 && n < len(full) && (full[n]&0xC0) == 0x80 {
				n++ // do not cut a multi-byte character
			}
			text := full[:n]
			nt, cls := classify(p, text)
			rec.Case(p.src+"\x00"+text, nt, append(cls, "boundary_sweep")...)
			cases = append(cases, caseT{p, text, 0}, caseT{p, text, 1000})
		}
	}
	if failed, err := runBatch([]*prepared{p}, cases); err != nil {
		if failed == nil {
			t.Fatalf("harness: %v", err)
		}
		rec.Fail(t, "case", input{Spec: failed.p.src, Input: failed.text, Chunk: failed.chunk}, "%v", err)
	}
	rec.Count("boundary_sweep_cases", len(cases))
}

// characters of several bytes in reported tokens AND in skipped ones, in one input: offsets are counted in one unit
func TestMixedWidthSkippedAndReported(t *testing.T) {
	rec.Begin(t)
	rec.Rule(rule + ruleMore)
	if rec.Shard() != 0 {
		t.Skip("seed independent: shard 0 only")
	}
	g := specGen{src: "grammar mixed;\nID = /[a-z][a-z0-9_]*/\nCJK = /[\\x4E2D\\x6587]+/\nEAC = /\\x00E9+/\nCOMMENT = /#[a-z \\x00E9\\x4E2D]*/\nWS = /[\\x20\\x09\\x0A\\x3000]+/\nstart = { ID | CJK | EAC | COMMENT | WS | \"=\" };\n"}
	p, ok, err := prepare(g)
	if err != nil || !ok {
		t.Fatalf("harness: specification not accepted: %v", err)
	}
	texts := []string{
		"中文 # café\nfoo 文 # 中\nbar", "é # é\né # éé\nx", "# 中中中\n中 = x", "a\u3000b 中\u3000\u3000é c", "é中é # caf\u00e9 \u4e2d\nzz = é",
		"x # a\ny", "中", "# é", "é é é é # é é é\nlast",
	}
	var cases []caseT
	for _, text := range texts {
		nt, cls := classify(p, text)
		rec.Case(p.src+"\x00"+text, nt, append(cls, "mixed_width_skipped_and_reported")...)
		cases = append(cases, caseT{p, text, 0}, caseT{p, text, 3})
	}
	if failed, err := runBatch([]*prepared{p}, cases); err != nil {
		if failed == nil {
			t.Fatalf("harness: %v", err)
		}
		rec.Fail(t, "case", input{Spec: failed.p.src, Input: failed.text, Chunk: failed.chunk}, "%v", err)
	}
}

func TestReplay(t *testing.T) {
	if !rec.IsReplay() {
		t.Skip("not in replay mode")
	}
	_, raw, _ := rec.Replay()
	var in input
	if err := json.Unmarshal(raw, &in); err != nil {
		t.Fatal(err)
	}
	p, ok, err := prepare(specGen{src: in.Spec})
	if err != nil || !ok {
		t.Fatalf("the specification is not accepted: %v", err)
	}
	if _, err := runBatch([]*prepared{p}, []caseT{{p, in.Input, in.Chunk}}); err != nil {
		rec.Fail(t, "case", in, "%v", err)
	}
}
