// Package c11 decides property C11: the syntax trees of a specification reflect the source exactly and round-trip.
package c11

import (
	"encoding/json"
	"fmt"
	"sort"
	"strconv"
	"strings"
	"testing"

	"github.com/moorara/algo/generic"
	"github.com/moorara/algo/grammar"
	"github.com/moorara/algo/lexer"
	algoparser "github.com/moorara/algo/parser"
	"github.com/moorara/algo/parser/lr"
	"pgregory.net/rapid"

	ebnf "github.com/gardenbed/emerge/internal/ebnf/parser"
	"github.com/gardenbed/emerge/internal/ebnf/parser/ast"
	"github.com/gardenbed/emerge/internal/ebnf/parser/spec"
	"github.com/gardenbed/emerge/internal/vh/gen"
	"github.com/gardenbed/emerge/internal/vh/rec"
	"github.com/gardenbed/emerge/internal/vh/ref"
)

func TestMain(m *testing.M) { rec.Main(m, "C11") }

const rule = "specification models (every declaration kind in any order, zero declarations, empty rules, nesting depth<=5, literals with escapes, redundant parentheses) printed under a random layout; " +
	"oracle: (a) the typed tree equals the canonical form of the model (operators, nesting, operand order, handle kinds, associativity, declared values; every position is that of the right token), " +
	"(b) the generic parse tree's leaves are the significant tokens with their positions, every interior node applies one of the 35 productions, and the tree equals the reference derivation, " +
	"(c) printing the typed tree and parsing it again gives an Equal tree (and an identical structure), (d) the grammar read off the typed tree has the same bounded language per rule and the same symbols as the one spec.Parse derives; " +
	"non-trivial = >=1 nested extended operator or zero declarations; distinct by specification text"

type input struct {
	Model *ref.SpecModel `json:"model"`
	Text  string         `json:"text"`
}

type posMap struct {
	toks  []ref.Tok
	byOff map[int]int
}

func newPosMap(toks []ref.Tok) *posMap {
	p := &posMap{toks: toks, byOff: map[int]int{}}
	for i, t := range toks {
		p.byOff[t.Off] = i
	}
	return p
}

// idx maps a reported position to the token that starts there (and verifies line and column).
func (p *posMap) idx(pos *lexer.Position) (int, error) {
	if pos == nil {
		return -1, nil
	}
	i, ok := p.byOff[pos.Offset]
	if !ok {
		return -2, fmt.Errorf("position %s (offset %d) is not the first character of any token", pos, pos.Offset)
	}
	t := p.toks[i]
	if pos.Line != t.Line || pos.Column != t.Col {
		return -2, fmt.Errorf("position of token %d (%s) is reported as %d:%d, it is %d:%d", i, t.Src, pos.Line, pos.Column, t.Line, t.Col)
	}
	if pos.Filename != "t.ebnf" {
		return -2, fmt.Errorf("position %s does not carry the file name", pos)
	}
	return i, nil
}

func fromRHS(r ast.RHS, pm *posMap) (*ref.CNode, error) {
	switch v := r.(type) {
	case *ast.TerminalRHS:
		i, err := pm.idx(v.Position)
		return &ref.CNode{K: "T", Name: v.Terminal, Tok: i}, err
	case *ast.NonTerminalRHS:
		i, err := pm.idx(v.Position)
		return &ref.CNode{K: "N", Name: v.NonTerminal, Tok: i}, err
	case *ast.EmptyRHS:
		return &ref.CNode{K: "Empty", Tok: -1}, nil
	case *ast.OptRHS, *ast.StarRHS, *ast.PlusRHS:
		var k string
		var op ast.RHS
		var pos *lexer.Position
		switch w := v.(type) {
		case *ast.OptRHS:
			k, op, pos = "Opt", w.Op, w.Position
		case *ast.StarRHS:
			k, op, pos = "Star", w.Op, w.Position
		case *ast.PlusRHS:
			k, op, pos = "Plus", w.Op, w.Position
		}
		i, err := pm.idx(pos)
		if err != nil {
			return nil, err
		}
		c, err := fromRHS(op, pm)
		if err != nil {
			return nil, err
		}
		return &ref.CNode{K: k, Tok: i, Kids: []*ref.CNode{c}}, nil
	case *ast.ConcatRHS, *ast.AltRHS:
		n := &ref.CNode{K: "Concat", Tok: -1}
		var ops []ast.RHS
		if w, ok := v.(*ast.ConcatRHS); ok {
			ops = w.Ops
		} else {
			n.K = "Alt"
			ops = v.(*ast.AltRHS).Ops
		}
		for _, o := range ops {
			c, err := fromRHS(o, pm)
			if err != nil {
				return nil, err
			}
			n.Kids = append(n.Kids, c)
		}
		return n, nil
	case nil:
		return nil, fmt.Errorf("nil right-hand side")
	}
	return nil, fmt.Errorf("unknown right-hand side node %T", r)
}

func assocName(a lr.Associativity) string {
	switch a {
	case lr.LEFT:
		return "@left"
	case lr.RIGHT:
		return "@right"
	case lr.NONE:
		return "@none"
	}
	return fmt.Sprint(a)
}

func fromGrammar(g *ast.Grammar, pm *posMap) (*ref.CSpec, error) {
	gi, err := pm.idx(g.Position)
	if err != nil {
		return nil, fmt.Errorf("grammar: %v", err)
	}
	cs := &ref.CSpec{Name: g.Name, Tok: gi}
	for di, d := range g.Decls {
		var c *ref.CDecl
		switch v := d.(type) {
		case *ast.StringTokenDecl:
			i, err := pm.idx(v.Position)
			if err != nil {
				return nil, fmt.Errorf("declaration %d: %v", di, err)
			}
			c = &ref.CDecl{Kind: "strtoken", Name: v.Name, Value: v.Value, Tok: i}
		case *ast.RegexTokenDecl:
			i, err := pm.idx(v.Position)
			if err != nil {
				return nil, fmt.Errorf("declaration %d: %v", di, err)
			}
			c = &ref.CDecl{Kind: "regextoken", Name: v.Name, Value: v.Regex, Tok: i}
		case *ast.RuleDecl:
			i, err := pm.idx(v.Position)
			if err != nil {
				return nil, fmt.Errorf("declaration %d: %v", di, err)
			}
			r, err := fromRHS(v.RHS, pm)
			if err != nil {
				return nil, fmt.Errorf("declaration %d: %v", di, err)
			}
			c = &ref.CDecl{Kind: "rule", Name: v.LHS, Tok: i, RHS: r}
		case *ast.PrecedenceDecl:
			i, err := pm.idx(v.Position)
			if err != nil {
				return nil, fmt.Errorf("declaration %d: %v", di, err)
			}
			c = &ref.CDecl{Kind: "directive", Assoc: assocName(v.Associativity), Tok: i}
			for _, h := range v.Handles {
				switch w := h.(type) {
				case *ast.TerminalHandle:
					hi, err := pm.idx(w.Position)
					if err != nil {
						return nil, fmt.Errorf("declaration %d: %v", di, err)
					}
					c.Handles = append(c.Handles, &ref.CDecl{Kind: "termhandle", Name: w.Terminal, Tok: hi})
				case *ast.ProductionHandle:
					hi, err := pm.idx(w.Position)
					if err != nil {
						return nil, fmt.Errorf("declaration %d: %v", di, err)
					}
					r, err := fromRHS(w.RHS, pm)
					if err != nil {
						return nil, fmt.Errorf("declaration %d: %v", di, err)
					}
					c.Handles = append(c.Handles, &ref.CDecl{Kind: "rulehandle", Name: w.LHS, Tok: hi, RHS: r})
				default:
					return nil, fmt.Errorf("declaration %d: unknown handle %T", di, h)
				}
			}
		default:
			return nil, fmt.Errorf("declaration %d: unknown node %T", di, d)
		}
		cs.Decls = append(cs.Decls, c)
	}
	return cs, nil
}

func diffDecl(want, got *ref.CDecl, path string, positions bool) string {
	if want.Kind != got.Kind || want.Name != got.Name || want.Value != got.Value || want.Assoc != got.Assoc {
		return fmt.Sprintf("%s: the tree has %s %q value %q %s, the source has %s %q value %q %s", path, got.Kind, got.Name, got.Value, got.Assoc, want.Kind, want.Name, want.Value, want.Assoc)
	}
	if positions && want.Tok != got.Tok {
		return fmt.Sprintf("%s: %s %q carries the position of token %d, its position in the source is that of token %d", path, got.Kind, got.Name, got.Tok, want.Tok)
	}
	if (want.RHS == nil) != (got.RHS == nil) {
		return fmt.Sprintf("%s: right-hand side present=%v, source has %v", path, got.RHS != nil, want.RHS != nil)
	}
	if want.RHS != nil {
		w, g := want.RHS, got.RHS
		if !positions {
			w, g = stripPos(w), stripPos(g)
		}
		if d := ref.DiffCNode(w, g, path); d != "" {
			return d
		}
	}
	if len(want.Handles) != len(got.Handles) {
		return fmt.Sprintf("%s: %d handles in the tree, %d in the source", path, len(got.Handles), len(want.Handles))
	}
	for i := range want.Handles {
		if d := diffDecl(want.Handles[i], got.Handles[i], fmt.Sprintf("%s/handle[%d]", path, i), positions); d != "" {
			return d
		}
	}
	return ""
}

func stripPos(n *ref.CNode) *ref.CNode {
	c := &ref.CNode{K: n.K, Name: n.Name, Tok: 0}
	for _, k := range n.Kids {
		c.Kids = append(c.Kids, stripPos(k))
	}
	return c
}

func diffSpec(want, got *ref.CSpec, positions bool) string {
	if want.Name != got.Name {
		return fmt.Sprintf("the tree is named %q, the source says %q", got.Name, want.Name)
	}
	if positions && want.Tok != got.Tok {
		return fmt.Sprintf("the grammar node carries the position of token %d instead of token %d", got.Tok, want.Tok)
	}
	if len(want.Decls) != len(got.Decls) {
		return fmt.Sprintf("the tree has %d declarations, the source has %d", len(got.Decls), len(want.Decls))
	}
	for i := range want.Decls {
		if d := diffDecl(want.Decls[i], got.Decls[i], fmt.Sprintf("declaration %d", i), positions); d != "" {
			return d
		}
	}
	return ""
}

// printTyped prints a typed tree back to EBNF, driven only by the tree.
func printTyped(g *ast.Grammar) (string, error) {
	var b strings.Builder
	fmt.Fprintf(&b, "grammar %s;\n", g.Name)
	term := func(s string) (string, error) {
		if strings.HasPrefix(s, `"`) {
			u, err := strconv.Unquote(s)
			if err != nil {
				return "", fmt.Errorf("terminal %s of the typed tree is not a quoted string", s)
			}
			return `"` + u + `"`, nil
		}
		return s, nil
	}
	var rhs func(r ast.RHS, inConcat bool) (string, error)
	rhs = func(r ast.RHS, inConcat bool) (string, error) {
		switch v := r.(type) {
		case *ast.TerminalRHS:
			return term(v.Terminal)
		case *ast.NonTerminalRHS:
			return v.NonTerminal, nil
		case *ast.EmptyRHS:
			return "", nil
		case *ast.OptRHS:
			s, err := rhs(v.Op, false)
			return "[ " + s + " ]", err
		case *ast.StarRHS:
			s, err := rhs(v.Op, false)
			return "{ " + s + " }", err
		case *ast.PlusRHS:
			s, err := rhs(v.Op, false)
			return "{{ " + s + " }}", err
		case *ast.ConcatRHS:
			var parts []string
			for _, o := range v.Ops {
				s, err := rhs(o, true)
				if err != nil {
					return "", err
				}
				parts = append(parts, s)
			}
			return strings.Join(parts, " "), nil
		case *ast.AltRHS:
			var parts []string
			for _, o := range v.Ops {
				s, err := rhs(o, false)
				if err != nil {
					return "", err
				}
				parts = append(parts, s)
			}
			s := strings.Join(parts, " | ")
			if inConcat {
				s = "( " + s + " )"
			}
			return s, nil
		}
		return "", fmt.Errorf("unknown node %T", r)
	}
	for _, d := range g.Decls {
		switch v := d.(type) {
		case *ast.StringTokenDecl:
			fmt.Fprintf(&b, "%s = \"%s\";\n", v.Name, v.Value)
		case *ast.RegexTokenDecl:
			// the tree holds the expansion of a predefined name; an expansion that contains the pattern delimiter
			// ($COMMENT) can only be written back by its name
			written := "/" + v.Regex + "/"
			for _, name := range gen.PredefNames {
				if gen.PredefTexts[name] == v.Regex {
					written = name
				}
			}
			fmt.Fprintf(&b, "%s = %s;\n", v.Name, written)
		case *ast.RuleDecl:
			s, err := rhs(v.RHS, false)
			if err != nil {
				return "", err
			}
			fmt.Fprintf(&b, "%s = %s;\n", v.LHS, s)
		case *ast.PrecedenceDecl:
			b.WriteString(assocName(v.Associativity))
			for _, h := range v.Handles {
				switch w := h.(type) {
				case *ast.TerminalHandle:
					s, err := term(w.Terminal)
					if err != nil {
						return "", err
					}
					b.WriteString(" " + s)
				case *ast.ProductionHandle:
					s, err := rhs(w.RHS, false)
					if err != nil {
						return "", err
					}
					fmt.Fprintf(&b, " <%s = %s>", w.LHS, s)
				}
			}
			b.WriteString(";\n")
		}
	}
	return b.String(), nil
}

// checkGeneric validates the generic parse tree against the tokens and the reference derivation.
func checkGeneric(root algoparser.Node, toks []ref.Tok, want *ref.Node) error {
	leaf := 0
	var walk func(n algoparser.Node, w *ref.Node, path string) error
	walk = func(n algoparser.Node, w *ref.Node, path string) error {
		switch v := n.(type) {
		case *algoparser.LeafNode:
			if w.Prod >= 0 {
				return fmt.Errorf("%s: the tree has the leaf %s where the derivation applies production %d", path, v.Terminal, w.Prod)
			}
			if leaf >= len(toks) {
				return fmt.Errorf("%s: the tree has more leaves than the text has tokens", path)
			}
			t := toks[leaf]
			if string(v.Terminal) != t.Kind || v.Lexeme != t.Lexeme {
				return fmt.Errorf("leaf %d is %s %q, the token at this place is %s %q", leaf, v.Terminal, v.Lexeme, t.Kind, t.Lexeme)
			}
			if v.Position.Offset != t.Off || v.Position.Line != t.Line || v.Position.Column != t.Col {
				return fmt.Errorf("leaf %d (%s %q) is positioned at offset %d %d:%d, the token is at offset %d %d:%d", leaf, v.Terminal, v.Lexeme, v.Position.Offset, v.Position.Line, v.Position.Column, t.Off, t.Line, t.Col)
			}
			if w.Tok != leaf {
				return fmt.Errorf("leaf %d is not where the derivation has it (token %d)", leaf, w.Tok)
			}
			leaf++
			return nil
		case *algoparser.InternalNode:
			// the node must apply one of the 35 productions
			var body []string
			for _, c := range v.Children {
				switch cc := c.(type) {
				case *algoparser.LeafNode:
					body = append(body, string(cc.Terminal))
				case *algoparser.InternalNode:
					body = append(body, string(cc.NonTerminal))
				}
			}
			found := -1
			for i, p := range ref.Productions {
				if p.Head == string(v.NonTerminal) && strings.Join(p.Body, " ") == strings.Join(body, " ") {
					found = i
				}
			}
			if found < 0 {
				return fmt.Errorf("%s: the node %s -> %v applies no production of the documented grammar", path, v.NonTerminal, body)
			}
			if w.Prod != found {
				return fmt.Errorf("%s: the tree applies production %d (%s -> %v) where the documented derivation applies production %d", path, found, v.NonTerminal, body, w.Prod)
			}
			if v.Production != nil {
				var pb []string
				for _, s := range v.Production.Body {
					pb = append(pb, s.Name())
				}
				if string(v.Production.Head) != string(v.NonTerminal) || strings.Join(pb, " ") != strings.Join(body, " ") {
					return fmt.Errorf("%s: the node's production %s does not match its children %v", path, v.Production, body)
				}
			}
			for i, c := range v.Children {
				if err := walk(c, w.Kids[i], fmt.Sprintf("%s/%s[%d]", path, v.NonTerminal, i)); err != nil {
					return err
				}
			}
			return nil
		}
		return fmt.Errorf("%s: unknown node %T", path, n)
	}
	if err := walk(root, want, ""); err != nil {
		return err
	}
	if leaf != len(toks) {
		return fmt.Errorf("the tree has %d leaves, the text has %d significant tokens", leaf, len(toks))
	}
	return nil
}

var roundTripScanner = ref.NewScanner()

func checkModel(m *ref.SpecModel, text string, toks []ref.Tok) error {
	pm := newPosMap(toks)
	// (a) typed tree
	var g *ast.Grammar
	var err error
	if perr := rec.Guard(func() { g, err = ast.Parse("t.ebnf", ref.Source(text)) }); perr != nil {
		return fmt.Errorf("%v\nspecification:\n%s", perr, text)
	}
	if err != nil {
		return fmt.Errorf("(ebnf) ast.Parse rejects a valid specification: %v\nspecification:\n%s", err, text)
	}
	if g == nil {
		return fmt.Errorf("ast.Parse returned neither a tree nor an error\nspecification:\n%s", text)
	}
	got, err := fromGrammar(g, pm)
	if err != nil {
		return fmt.Errorf("typed tree: %v\nspecification:\n%s", err, text)
	}
	want := ref.CanonSpec(m, gen.PredefTexts)
	if d := diffSpec(want, got, true); d != "" {
		return fmt.Errorf("typed tree: %s\nspecification:\n%s", d, text)
	}
	// (a') Traverse / Children / Pos: a pre-order walk visits the canonical tree's nodes in source order, and every
	// node's Pos() is the position of the leftmost token it covers
	if err := checkTraverse(g, want, pm); err != nil {
		return fmt.Errorf("typed tree traversal: %v\nspecification:\n%s", err, text)
	}
	// (b) generic parse tree
	var root algoparser.Node
	if perr := rec.Guard(func() {
		var p *ebnf.Parser
		p, err = ebnf.New("t.ebnf", ref.Source(text))
		if err == nil {
			root, err = p.ParseAndBuildAST()
		}
	}); perr != nil {
		return fmt.Errorf("%v\nspecification:\n%s", perr, text)
	}
	if err != nil || root == nil {
		return fmt.Errorf("ParseAndBuildAST fails on a valid specification: %v\nspecification:\n%s", err, text)
	}
	tree, errIdx := ref.ParseKinds(ref.Kinds(toks))
	if tree == nil {
		return fmt.Errorf("harness inconsistency: the reference parser rejects the printed model at token %d\nspecification:\n%s", errIdx, text)
	}
	if err := checkGeneric(root, toks, tree); err != nil {
		return fmt.Errorf("parse tree: %v\nspecification:\n%s", err, text)
	}
	// (c) round trip
	printed, err := printTyped(g)
	if err != nil {
		return fmt.Errorf("%v\nspecification:\n%s", err, text)
	}
	skipRoundTrip := false
	if len(printed) > 4000 {
		// a printed text beyond one buffer half may lie in the class of the listed dependency finding of C13 (a lexeme
		// that ends at the last byte of a buffer half); the round trip compares positions, so the text cannot be shifted
		for _, b := range roundTripScanner.Boundaries(printed + "\n") {
			skipRoundTrip = skipRoundTrip || b%4096 == 4095
		}
		if skipRoundTrip {
			rec.Count("excluded_known_reload_alignment_of_the_printed_tree", 1)
		}
	}
	if !skipRoundTrip {
		var g2, g3 *ast.Grammar
		var err2, err3 error
		if perr := rec.Guard(func() {
			g2, err2 = ast.Parse("t.ebnf", ref.Source(printed))
			if err2 == nil {
				var p3 string
				p3, err3 = printTyped(g2)
				if err3 == nil {
					g3, err3 = ast.Parse("t.ebnf", ref.Source(p3))
				}
			}
		}); perr != nil {
			return fmt.Errorf("%v\nprinted tree:\n%s", perr, printed)
		}
		if err2 != nil {
			return fmt.Errorf("the printed typed tree does not parse: %v\nprinted tree:\n%s\nspecification:\n%s", err2, printed, text)
		}
		if err3 != nil {
			return fmt.Errorf("the second print of the typed tree does not parse: %v", err3)
		}
		if !g2.Equal(g3) || !g3.Equal(g2) {
			return fmt.Errorf("printing the typed tree and parsing it again does not give an Equal tree\nprinted tree:\n%s", printed)
		}
		toks2, _, _ := ref.NewScanner().Scan(printed)
		got2, err := fromGrammar(g2, newPosMap(toks2))
		if err != nil {
			return fmt.Errorf("round trip: %v\nprinted tree:\n%s", err, printed)
		}
		if d := diffSpec(got, got2, false); d != "" {
			return fmt.Errorf("round trip changes the tree: %s\nprinted tree:\n%s\nspecification:\n%s", d, printed, text)
		}
	}
	// Equal must see a difference in any single leaf: compare against the tree of the original text
	var g1b *ast.Grammar
	_ = rec.Guard(func() { g1b, _ = ast.Parse("t.ebnf", ref.Source(text)) })
	if g1b == nil || !g.Equal(g1b) {
		return fmt.Errorf("parsing the same text twice does not give Equal trees\nspecification:\n%s", text)
	}
	// (d) the grammar read off the typed tree vs the grammar emerge derives
	var sp *spec.Spec
	var serr error
	if perr := rec.Guard(func() { sp, serr = spec.Parse("t.ebnf", ref.Source(text)) }); perr != nil {
		return fmt.Errorf("%v\nspecification:\n%s", perr, text)
	}
	if serr == nil && sp != nil {
		var rules []*ref.Decl
		for _, d := range got.Decls {
			switch d.Kind {
			case "rule":
				rules = append(rules, &ref.Decl{Kind: "rule", Name: d.Name, RHS: d.RHS.ToRHS()})
			case "directive":
				for _, h := range d.Handles {
					if h.Kind == "rulehandle" {
						rules = append(rules, &ref.Decl{Kind: "rule", Name: h.Name, RHS: h.RHS.ToRHS()})
					}
				}
			}
		}
		n := 4
		if len(toks) > 400 {
			n = 1 // large specifications have hundreds of terminals: sentences of one terminal (and the empty one)
		}
		wantL := ref.ModelLanguages(rules, n)
		var prods []ref.CFGProduction
		for p := range sp.Grammar.Productions.All() {
			cp := ref.CFGProduction{Head: string(p.Head)}
			for _, s := range p.Body {
				switch v := s.(type) {
				case grammar.Terminal:
					cp.Body = append(cp.Body, "t:"+string(v))
				case grammar.NonTerminal:
					cp.Body = append(cp.Body, "n:"+string(v))
				}
			}
			prods = append(prods, cp)
		}
		gotL := ref.CFGLanguages(prods, n)
		for name, l := range wantL {
			gl := gotL[name]
			if gl == nil {
				gl = ref.Lang{}
			}
			if w, inTree, bad := l.Diff(gl); bad {
				return fmt.Errorf("the grammar read off the typed tree and the grammar emerge derives differ for rule %s on [%s] (in the tree's grammar: %v)\nspecification:\n%s", name, ref.Show(w), inTree, text)
			}
			if !sp.Grammar.NonTerminals.Contains(grammar.NonTerminal(name)) {
				return fmt.Errorf("rule %s of the typed tree is not a non-terminal of the derived grammar\nspecification:\n%s", name, text)
			}
		}
		// deriving the grammar from the same text once more gives the same grammar, name for name (the typed tree's
		// structure determines it, not what was derived before)
		var sp2 *spec.Spec
		_ = rec.Guard(func() { sp2, _ = spec.Parse("t.ebnf", ref.Source(text)) })
		if sp2 != nil {
			list := func(x *spec.Spec) string {
				var ps []string
				for p := range x.Grammar.Productions.All() {
					ps = append(ps, p.String())
				}
				sort.Strings(ps)
				return strings.Join(ps, "\n")
			}
			if a, b := list(sp), list(sp2); a != b {
				return fmt.Errorf("the grammar derived from the same text a second time differs from the first\n--- first:\n%s\n--- second:\n%s\nspecification:\n%s", a, b, text)
			}
		}
		// every token the tree declares is a terminal of the derived grammar, used or not
		for _, d := range got.Decls {
			if (d.Kind == "strtoken" || d.Kind == "regextoken") && !sp.Grammar.Terminals.Contains(grammar.Terminal(d.Name)) {
				return fmt.Errorf("token %s is declared in the typed tree, but it is no terminal of the grammar emerge derives\nspecification:\n%s\nterminals: %v", d.Name, text, sp.Grammar.Terminals)
			}
		}
		// structure: one non-terminal per rule name and one per distinct bracketed operand and operator in the tree
		// (two occurrences of the same operand under the same operator are the same synthesised rule)
		// (counted on the written specification: the typed tree does not keep parentheses)
		heads := map[string]bool{}
		for _, r := range m.Rules() {
			heads[r.Name] = true
		}
		// (only when no operand lists an alternative twice: emerge files operands under a digest of the sorted list
		// of alternatives, and lists with repeated or empty entries may or may not end up under one entry)
		if n, exact := distinctBrackets(m.Rules()); exact {
			if want, have := len(heads)+n, sp.Grammar.NonTerminals.Size(); want != have {
				return fmt.Errorf("the specification has %d rule names and %d distinct bracketed operands (per operator), the grammar emerge derives has %d non-terminals instead of %d\nspecification:\n%s\ngrammar:\n%v", len(heads), n, have, want, text, sp.Grammar)
			}
		} else {
			rec.Count("non_terminal_count_not_compared_repeated_alternatives", 1)
		}
	}
	return nil
}

// distinctBrackets counts the distinct (operator, operand) pairs of the rules, where an operand is the list of its
// alternatives in any order, each a sequence of symbols, and a nested bracket counts as the symbol it stands for.
func distinctBrackets(rules []*ref.Decl) (int, bool) {
	keys := map[string]bool{}
	exact := true
	var seqs func(r *ref.RHS) []string
	seqs = func(r *ref.RHS) []string {
		if r == nil {
			return []string{""}
		}
		switch r.K {
		case "str", "tok":
			return []string{"t:" + r.Name}
		case "nt":
			return []string{"n:" + r.Name}
		case "empty":
			return []string{""}
		case "cat":
			out := []string{""}
			for _, s := range r.Subs {
				var next []string
				for _, a := range out {
					for _, b := range seqs(s) {
						next = append(next, strings.TrimSpace(a+" "+b))
					}
				}
				out = next
			}
			return out
		case "alt":
			var out []string
			for _, s := range r.Subs {
				out = append(out, seqs(s)...)
			}
			return out
		default: // grp opt star plus
			// alternatives in any order; an alternative written twice is kept twice (emerge files operands under a
			// digest of the sorted list of alternatives)
			alts := append([]string{}, seqs(r.Subs[0])...)
			sort.Strings(alts)
			for i := 1; i < len(alts); i++ {
				if alts[i] == alts[i-1] {
					exact = false
				}
			}
			key := r.K + "#" + strings.Join(alts, "|")
			keys[key] = true
			return []string{"g:<" + key + ">"}
		}
	}
	for _, r := range rules {
		seqs(r.RHS)
	}
	return len(keys), exact
}

// preorder lists the canonical nodes (kind:name) in pre-order; Concat/Alt/brackets are interior nodes.
func preorder(c *ref.CSpec) []string {
	out := []string{"Grammar:" + c.Name}
	var rhs func(n *ref.CNode)
	rhs = func(n *ref.CNode) {
		out = append(out, n.K+":"+n.Name)
		for _, k := range n.Kids {
			rhs(k)
		}
	}
	for _, d := range c.Decls {
		switch d.Kind {
		case "strtoken", "regextoken":
			out = append(out, d.Kind+":"+d.Name)
		case "rule":
			out = append(out, "rule:"+d.Name)
			rhs(d.RHS)
		case "directive":
			out = append(out, "directive:"+d.Assoc)
			for _, h := range d.Handles {
				out = append(out, h.Kind+":"+h.Name)
				if h.RHS != nil {
					rhs(h.RHS)
				}
			}
		}
	}
	return out
}

func describeNode(n ast.Node) string {
	switch v := n.(type) {
	case *ast.Grammar:
		return "Grammar:" + v.Name
	case *ast.StringTokenDecl:
		return "strtoken:" + v.Name
	case *ast.RegexTokenDecl:
		return "regextoken:" + v.Name
	case *ast.RuleDecl:
		return "rule:" + v.LHS
	case *ast.PrecedenceDecl:
		return "directive:" + assocName(v.Associativity)
	case *ast.TerminalHandle:
		return "termhandle:" + v.Terminal
	case *ast.ProductionHandle:
		return "rulehandle:" + v.LHS
	case *ast.ConcatRHS:
		return "Concat:"
	case *ast.AltRHS:
		return "Alt:"
	case *ast.OptRHS:
		return "Opt:"
	case *ast.StarRHS:
		return "Star:"
	case *ast.PlusRHS:
		return "Plus:"
	case *ast.TerminalRHS:
		return "T:" + v.Terminal
	case *ast.NonTerminalRHS:
		return "N:" + v.NonTerminal
	case *ast.EmptyRHS:
		return "Empty:"
	}
	return fmt.Sprintf("%T", n)
}

func checkTraverse(g *ast.Grammar, want *ref.CSpec, pm *posMap) error {
	var got []string
	var perr error
	ast.Traverse(g, generic.VLR, func(n ast.Node) bool {
		got = append(got, describeNode(n))
		// Pos() of an interior node is the position of its leftmost leaf/bracket
		if in, ok := n.(ast.InternalNode); ok && perr == nil {
			if _, isG := n.(*ast.Grammar); !isG {
				kids := in.Children()
				if len(kids) == 0 {
					perr = fmt.Errorf("interior node %s has no children", describeNode(n))
				}
			}
		}
		if p := n.Pos(); p != nil && perr == nil {
			if _, err := pm.idx(p); err != nil {
				perr = fmt.Errorf("%s: %v", describeNode(n), err)
			}
		}
		return true
	})
	if perr != nil {
		return perr
	}
	exp := preorder(want)
	if strings.Join(got, " ") != strings.Join(exp, " ") {
		for i := 0; i < len(got) || i < len(exp); i++ {
			g1, e1 := "<end>", "<end>"
			if i < len(got) {
				g1 = got[i]
			}
			if i < len(exp) {
				e1 = exp[i]
			}
			if g1 != e1 {
				return fmt.Errorf("a pre-order traversal visits %s as node %d, the source has %s there", g1, i, e1)
			}
		}
	}
	return nil
}

func features(m *ref.SpecModel) (bool, []string) {
	nested := false
	var cls []string
	kinds := map[string]bool{}
	for _, d := range m.Decls {
		kinds[d.Kind+d.TokKind] = true
	}
	for _, r := range m.Rules() {
		r.RHS.Walk(func(x *ref.RHS) {
			switch x.K {
			case "opt", "star", "plus", "grp":
				for _, s := range x.Subs {
					s.Walk(func(y *ref.RHS) {
						if y != x && (y.K == "opt" || y.K == "star" || y.K == "plus") {
							nested = true
						}
					})
				}
				if x.K == "grp" {
					kinds["redundant_or_grouping_parens"] = true
				}
			}
		})
	}
	for k := range kinds {
		cls = append(cls, "has_"+k)
	}
	if nested {
		cls = append(cls, "nested_extended_operator")
	}
	if len(m.Decls) == 0 {
		cls = append(cls, "zero_declarations")
	}
	return nested || len(m.Decls) == 0, cls
}

// addParens wraps random sub-expressions in redundant parentheses.
func addParens(t *rapid.T, r *ref.RHS) *ref.RHS {
	if r == nil {
		return nil
	}
	for i, s := range r.Subs {
		r.Subs[i] = addParens(t, s)
	}
	if r.K != "empty" && rapid.IntRange(0, 7).Draw(t, "paren") == 0 {
		return &ref.RHS{K: "grp", Subs: []*ref.RHS{r}}
	}
	return r
}

func TestTreesReflectSource(t *testing.T) {
	rec.Rule(rule)
	rec.Assume("specifications stay below one buffer half (the listed dependency finding of C13 concerns alignments at 4096-byte boundaries)")
	opts := gen.SpecOpts{MaxRules: 3, Depth: 5, Literals: []string{"a", "b", `\"`, `\\`, `a\"b`, "+", "if"}, Tokens: []string{"TK", "NUM", "ID_2"}, Directives: 3, RuleHandles: true, DupRules: true, EmptyRules: true}
	rec.Check(t, 2500, 120000, func(t *rapid.T) {
		var m *ref.SpecModel
		if rapid.IntRange(0, 29).Draw(t, "zeroDecls") == 0 {
			m = &ref.SpecModel{Name: "empty_1", NameSemi: rapid.Bool().Draw(t, "semi")}
		} else {
			m = gen.Spec(t, opts)
			for _, d := range m.Decls {
				if d.Kind == "rule" {
					d.RHS = addParens(t, d.RHS)
					moreEmpties(t, d.RHS)
				}
				// token values that end in an escaped delimiter (the trees hold the text between the delimiters as written)
				if d.Kind == "token" && rapid.IntRange(0, 3).Draw(t, "escapedDelimiter") == 0 {
					switch d.TokKind {
					case "regex":
						d.Text = rapid.SampledFrom([]string{`\/`, `a\/`, `[a-z]+:\/\/`, `\/\*x\*\/`, `\/+b`}).Draw(t, "regexText")
					case "string":
						d.Text = rapid.SampledFrom([]string{`\"`, `q\"`, `\"\"`, `a\\`, `\"z`}).Draw(t, "stringText")
					}
				}
				for _, h := range d.Handles {
					if h.Rule != nil {
						h.Rule.RHS = addParens(t, h.Rule.RHS)
					}
				}
			}
		}
		toks := m.Tokens()
		text, placed := ref.Render(toks, gen.Seps(t, toks))
		nt, cls := features(m)
		rec.Case(text, nt, cls...)
		if nt {
			rec.Sample("spec", text)
		}
		if err := checkModel(m, text, placed); err != nil {
			rec.Fail(t, "model", input{Model: m, Text: text}, "%v", err)
		}
	})
}

// moreEmpties writes a second empty alternative after a trailing one ("a" | | ;): each written operand is an operand
// of the typed tree.
func moreEmpties(t *rapid.T, r *ref.RHS) {
	if r == nil {
		return
	}
	for _, s := range r.Subs {
		moreEmpties(t, s)
	}
	if n := len(r.Subs); r.K == "alt" && n >= 2 && r.Subs[n-1].K == "empty" && rapid.IntRange(0, 3).Draw(t, "secondEmpty") == 0 {
		r.Subs = append(r.Subs, &ref.RHS{K: "empty"})
	}
}

// fixed shapes that the random generator reaches only now and then: the same alternatives in two orders under one
// operator (one synthesised rule), the same operand under every operator, brace literals under one operator
func TestFixedShapes(t *testing.T) {
	rec.Begin(t)
	rec.Rule(rule)
	if rec.Shard() != 0 {
		t.Skip("seed independent: shard 0 only")
	}
	tok := func(s string) *ref.RHS { return &ref.RHS{K: "tok", Name: s} }
	str := func(s string) *ref.RHS { return &ref.RHS{K: "str", Name: s} }
	w := func(k string, s *ref.RHS) *ref.RHS { return &ref.RHS{K: k, Subs: []*ref.RHS{s}} }
	cat := func(s ...*ref.RHS) *ref.RHS { return &ref.RHS{K: "cat", Subs: s} }
	alt := func(s ...*ref.RHS) *ref.RHS { return &ref.RHS{K: "alt", Subs: s} }
	decls := func(rhs *ref.RHS) *ref.SpecModel {
		return &ref.SpecModel{Name: "g", NameSemi: true, Decls: []*ref.Decl{
			{Kind: "token", Name: "AA", TokKind: "string", Text: "x", Semi: true},
			{Kind: "token", Name: "BB", TokKind: "regex", Text: "[0-9]+", Semi: true},
			{Kind: "rule", Name: "start", RHS: rhs, Semi: true},
		}}
	}
	var models []*ref.SpecModel
	for _, k := range []string{"grp", "opt", "star", "plus"} {
		models = append(models,
			decls(cat(w(k, alt(tok("AA"), tok("BB"))), str("m"), w(k, alt(tok("BB"), tok("AA"))))),
			decls(cat(w(k, alt(str("a"), cat(str("b"), str("c")))), w(k, alt(cat(str("b"), str("c")), str("a"))), w(k, alt(str("a"), cat(str("b"), str("c")))))),
			decls(cat(w(k, str("{")), w(k, str("}")), w(k, str("(")), w(k, str(")")), w(k, str("[")), w(k, str("]")))),
		)
	}
	models = append(models, decls(cat(w("grp", tok("AA")), w("opt", tok("AA")), w("star", tok("AA")), w("plus", tok("AA")), w("opt", w("grp", tok("AA"))))))
	for _, m := range models {
		toks := m.Tokens()
		text, placed := ref.Render(toks, ref.PlainSeps(toks))
		nt, cls := features(m)
		rec.Case(text, nt, append(cls, "fixed_shape")...)
		if err := checkModel(m, text, placed); err != nil {
			rec.Fail(t, "model", input{Model: m, Text: text}, "%v", err)
		}
	}
}

// large specifications (gen.BigModels): more operands, rules and declarations than any block or table of a tree builder
func TestLargeSpecifications(t *testing.T) {
	rec.Begin(t)
	rec.Rule(rule)
	if rec.Shard() != 0 {
		t.Skip("seed independent: shard 0 only")
	}
	for _, m := range gen.BigModels() {
		text, placed := gen.BigText(m)
		rec.Case(text, true, "large_specification")
		if err := checkModel(m, text, placed); err != nil {
			msg := err.Error()
			if len(msg) > 3000 {
				msg = msg[:3000] + " ..."
			}
			rec.Fail(t, "model", input{Model: m, Text: text}, "large specification %s: %s", m.Name, msg)
		}
	}
}

func TestReplay(t *testing.T) {
	if !rec.IsReplay() {
		t.Skip("not in replay mode")
	}
	_, raw, _ := rec.Replay()
	var in input
	if err := json.Unmarshal(raw, &in); err != nil {
		t.Fatal(err)
	}
	toks, lexErr, _ := ref.NewScanner().Scan(in.Text)
	if lexErr != nil {
		t.Fatalf("replay text does not scan: %+v", lexErr)
	}
	if err := checkModel(in.Model, in.Text, toks); err != nil {
		rec.Fail(t, "model", in, "%v", err)
	}
}
