// Package c06 decides property C06: the LALR(1) table emerge builds for a user grammar parses exactly the
// grammar's language, honours @left/@right directives, rejects unresolved conflicts and never rejects an LALR(1) grammar.
package c06

import (
	"encoding/json"
	"fmt"
	"os"
	"os/exec"
	"path/filepath"
	"sort"
	"strings"
	"sync"
	"testing"

	"github.com/moorara/algo/grammar"
	"github.com/moorara/algo/parser/lr"
	"pgregory.net/rapid"

	"github.com/gardenbed/emerge/internal/ebnf/parser/spec"
	"github.com/gardenbed/emerge/internal/vh/gen"
	"github.com/gardenbed/emerge/internal/vh/rec"
	"github.com/gardenbed/emerge/internal/vh/ref"
)

func TestMain(m *testing.M) { rec.Main(m, "C06") }

// ruleMore describes what was added to the exploration in the build phase.
const ruleMore = "; also: specifications that use the EBNF operators (rules reachable and productive by construction, one operand under several operators, punctuation literals): the language of the grammar the table is built for must equal the language of the text, the table is handed out iff the reference construction on the derived grammar is conflict free, and the driver accepts exactly the text's sentences; conflict-free grammars with random directives over their terminals and productions (nothing to resolve: accepted, same language); directives before, after and around the rule"

const (
	rule = "grammars: textbook families of known class (SLR, LALR-not-SLR, LR(1)-not-LALR, ambiguous, dangling else, epsilon-rich), random reduced plain grammars (2-4 non-terminals, 2-3 terminals, <=7 productions, " +
		"constructed so that every non-terminal is productive and reachable; a template yields LR(1)-not-LALR(1) cases), operator grammars with 1-5 binary and 0-2 prefix operators under a random precedence table; " +
		"oracle: accepted iff the reference LALR(1) construction (canonical LR(1) merged by core) is conflict free / every conflict is covered by directives; for accepted grammars a textbook shift-reduce driver on emerge's table accepts a string iff it is in L<=N(G) for ALL strings up to N, " +
		"and for operator grammars its parse equals the precedence-climbing parse for ALL expressions up to a size bound; an undeclared operator must be rejected with a conflict report naming it; " +
		"non-trivial = the unresolved table has a conflict, or >=2 precedence levels; distinct by specification text"
	cyclicKey = "cyclic-grammar-panic"
	kernelKey = "lalr-kernel-superset"
)

const kernelProbe = "grammar g;\nstart = \"a\" \"a\" | x | y start | y \"a\";\nx = \"b\";\ny = \"a\" \"a\";\n"

var kernelOnce sync.Once
var kernelKnown bool

// kernelTolerated probes the listed dependency finding: the table of the probe grammar accepts the string "a".
func kernelTolerated() bool {
	kernelOnce.Do(func() {
		_, T, perr, terr, panicked := build(kernelProbe)
		present := false
		if perr == nil && terr == nil && panicked == nil && T != nil {
			acc, _, derr := drive(T, []string{"a"}, nil)
			present = acc || derr != nil
		}
		kernelKnown = rec.Known(kernelKey, present)
	})
	return kernelKnown
}

type input struct {
	Kind     string            `json:"kind"` // plain | operator
	Spec     string            `json:"spec"`
	Grammar  *ref.Grammar      `json:"grammar,omitempty"`
	Model    *ref.SpecModel    `json:"model,omitempty"`
	Binary   map[string]ref.OpInfo `json:"binary,omitempty"`
	Prefix   map[string]ref.OpInfo `json:"prefix,omitempty"`
	Declared bool              `json:"declared"`
	Missing  string            `json:"missing,omitempty"`
	N        int               `json:"n"`
}

func build(src string) (sp *spec.Spec, T *lr.ParsingTable, perr, terr, panicked error) {
	var twice error
	panicked = rec.Guard(func() {
		sp, perr = spec.Parse("t.ebnf", ref.Source(src))
		if perr == nil {
			T, terr, twice = tableOf(sp, src)
		}
	})
	if panicked == nil && twice != nil {
		panicked = twice
	}
	return
}

// otherLevels is derived between the derivation of a specification and the construction of its table in half of the
// cases (chosen by a digest of the text): the levels of the specification at hand are its own directives, whatever
// was derived since.
const otherLevels = "grammar other;\n@right \"+\" \"-\" \"*\" \"/\" \"^\" \"a\" \"b\" \"c\"\n@none \"<\" \"i\" \"e\"\n@left <start = start start> <e = e e>\nstart = start \"+\" start | start start | \"n\";\ne = e e | \"x\";\n"

// tableOf asks for the LALR(1) table the way a caller may: after other work, and more than once. The second answer
// must be the first one (a table and no error, or an error).
func tableOf(sp *spec.Spec, src string) (*lr.ParsingTable, error, error) {
	h := uint32(2166136261)
	for i := 0; i < len(src); i++ {
		h = (h ^ uint32(src[i])) * 16777619
	}
	if h%2 == 0 {
		_, _ = spec.Parse("other.ebnf", strings.NewReader(otherLevels))
		rec.Count("tables_built_after_another_specification_was_derived", 1)
	}
	T, terr := sp.LALRParsingTable()
	T2, terr2 := sp.LALRParsingTable()
	if (terr == nil) != (terr2 == nil) || (T == nil) != (T2 == nil) {
		return T, terr, fmt.Errorf("LALRParsingTable() is asked twice for the same specification: the first answer is error=%v, the second error=%v\nspecification:\n%s", terr, terr2, src)
	}
	if T != nil && T2 != nil && T.String() != T2.String() {
		return T, terr, fmt.Errorf("LALRParsingTable() is asked twice for the same specification and hands out two different tables\nspecification:\n%s", src)
	}
	return T, terr, nil
}

// drive is the textbook shift-reduce algorithm over emerge's table.  If render is set, a value stack is kept:
// a shifted terminal is its own name, a reduction renders the values of the body.
func drive(T *lr.ParsingTable, w []string, render func(p *grammar.Production, args []string) string) (bool, string, error) {
	stack := []lr.State{0}
	var vals []string
	i := 0
	for steps := 0; steps < 10000; steps++ {
		a := grammar.Endmarker
		if i < len(w) {
			a = grammar.Terminal(w[i])
		}
		act, err := T.ACTION(stack[len(stack)-1], a)
		if err != nil {
			if _, conflict := err.(*lr.ConflictError); conflict {
				return false, "", fmt.Errorf("the table handed out without error still has a conflict: %v", err)
			}
			return false, "", nil
		}
		switch act.Type {
		case lr.SHIFT:
			stack = append(stack, act.State)
			vals = append(vals, w[i])
			i++
		case lr.REDUCE:
			n := len(act.Production.Body)
			if n > len(stack)-1 {
				return false, "", fmt.Errorf("on input %v the table reduces by %s with only %d symbols on the stack (a transition leads to a wrong state)", w, act.Production, len(stack)-1)
			}
			stack = stack[:len(stack)-n]
			nx, gerr := T.GOTO(stack[len(stack)-1], act.Production.Head)
			if gerr != nil {
				return false, "", fmt.Errorf("GOTO missing after reduce %s: %v", act.Production, gerr)
			}
			stack = append(stack, nx)
			v := ""
			if render != nil {
				v = render(act.Production, vals[len(vals)-n:])
			}
			vals = append(vals[:len(vals)-n], v)
		case lr.ACCEPT:
			v := ""
			if len(vals) == 1 {
				v = vals[0]
			}
			return i == len(w), v, nil
		default:
			return false, "", nil
		}
	}
	return false, "", fmt.Errorf("the driver does not terminate on %v", w)
}

func renderExpr(p *grammar.Production, args []string) string {
	switch {
	case len(args) == 1:
		return args[0]
	case len(args) == 3 && args[0] == "(":
		return "(" + args[1] + ")"
	default:
		return "[" + strings.Join(args, " ") + "]"
	}
}

// ---------- plain grammars ----------

func checkPlain(g *ref.Grammar, src string, n int) (nontrivial bool, cls string, err error) {
	lalr, lr1, conflicts, ok := g.Classify()
	if !ok {
		return false, "too_large", nil
	}
	_, T, perr, terr, panicked := build(src)
	if panicked != nil {
		return !lalr, "panic", fmt.Errorf("%v\nspecification:\n%s", panicked, src)
	}
	if perr != nil {
		return !lalr, "rejected_at_parse", fmt.Errorf("well-formed specification rejected: %v\nspecification:\n%s", perr, src)
	}
	switch {
	case lalr:
		cls = "lalr"
	case lr1:
		cls = "lr1_not_lalr"
	default:
		cls = "not_lr1"
	}
	if lalr && terr != nil {
		return false, cls, fmt.Errorf("an LALR(1) grammar is rejected: %v\nspecification:\n%s", terr, src)
	}
	if !lalr && terr == nil {
		return true, cls, fmt.Errorf("the grammar has LALR(1) conflicts (e.g. on %q: %v) and no directives, but it is accepted\nspecification:\n%s", conflicts[0].Terminal, conflicts[0].Actions, src)
	}
	if terr != nil {
		if !strings.Contains(strings.ToLower(terr.Error()), "conflict") {
			return true, cls, fmt.Errorf("the grammar is rejected, but not with a conflict report: %v\nspecification:\n%s", terr, src)
		}
		return true, cls, nil
	}
	if T == nil {
		return false, cls, fmt.Errorf("LALRParsingTable returned neither a table nor an error\nspecification:\n%s", src)
	}
	L := ref.CFGLanguages(g.CFG(), n)["start"]
	for _, w := range ref.AllStrings(g.Terms, n) {
		acc, _, derr := drive(T, w, nil)
		if derr != nil {
			return false, cls, fmt.Errorf("%v\nspecification:\n%s", derr, src)
		}
		if acc != L[ref.Word(w)] {
			return false, cls, fmt.Errorf("the sentence [%s] is in the language of the grammar: %v, but the table accepts it: %v\nspecification:\n%s", strings.Join(w, " "), L[ref.Word(w)], acc, src)
		}
	}
	return false, cls, nil
}

// irrelevantDirectives writes up to three precedence levels over terminals and productions of a grammar (every handle
// at most once).  For a grammar without LALR(1) conflicts they have nothing to resolve: the table must be handed out
// and accept the same language.  choose(k) returns a number in [0, k).
func irrelevantDirectives(g *ref.Grammar, choose func(k int) int) string {
	levels := make([][]string, 3)
	for _, a := range g.Terms {
		if l := choose(5); l < 3 {
			levels[l] = append(levels[l], fmt.Sprintf("%q", a))
		}
	}
	for _, p := range g.Prods {
		if l := choose(6); l < 3 {
			var ss []string
			for _, s := range p.Body {
				isNT := false
				for _, n := range g.NTs {
					isNT = isNT || n == s
				}
				if isNT {
					ss = append(ss, s)
				} else {
					ss = append(ss, fmt.Sprintf("%q", s))
				}
			}
			levels[l] = append(levels[l], fmt.Sprintf("<%s = %s>", p.Head, strings.Join(ss, " ")))
		}
	}
	var b strings.Builder
	for _, hs := range levels {
		if len(hs) > 0 {
			fmt.Fprintf(&b, "%s %s;\n", []string{"@left", "@right", "@none"}[choose(3)], strings.Join(hs, " "))
		}
	}
	return b.String()
}

type family struct {
	name  string
	g     *ref.Grammar
	lalr  bool
	lr1   bool
}

func P(head string, body ...string) ref.GProd { return ref.GProd{Head: head, Body: body} }

func families() []family {
	return []family{
		{"slr_expressions", &ref.Grammar{NTs: []string{"start", "e", "t", "f"}, Terms: []string{"+", "*", "(", ")", "i"}, Prods: []ref.GProd{
			P("start", "e"), P("e", "e", "+", "t"), P("e", "t"), P("t", "t", "*", "f"), P("t", "f"), P("f", "(", "e", ")"), P("f", "i")}}, true, true},
		{"lalr_not_slr", &ref.Grammar{NTs: []string{"start", "l", "r"}, Terms: []string{"=", "*", "i"}, Prods: []ref.GProd{
			P("start", "l", "=", "r"), P("start", "r"), P("l", "*", "r"), P("l", "i"), P("r", "l")}}, true, true},
		{"lalr_not_slr_2", &ref.Grammar{NTs: []string{"start", "x"}, Terms: []string{"a", "b", "c", "d"}, Prods: []ref.GProd{
			P("start", "x", "a"), P("start", "b", "x", "c"), P("start", "d", "c"), P("start", "b", "d", "a"), P("x", "d")}}, true, true},
		{"lr1_not_lalr", &ref.Grammar{NTs: []string{"start", "x", "y"}, Terms: []string{"a", "b", "c", "d", "e"}, Prods: []ref.GProd{
			P("start", "a", "x", "d"), P("start", "b", "y", "d"), P("start", "a", "y", "e"), P("start", "b", "x", "e"), P("x", "c"), P("y", "c")}}, false, true},
		{"ambiguous_sum", &ref.Grammar{NTs: []string{"start"}, Terms: []string{"+", "i"}, Prods: []ref.GProd{
			P("start", "start", "+", "start"), P("start", "i")}}, false, false},
		{"dangling_else", &ref.Grammar{NTs: []string{"start"}, Terms: []string{"i", "e", "o"}, Prods: []ref.GProd{
			P("start", "i", "start"), P("start", "i", "start", "e", "start"), P("start", "o")}}, false, false},
		{"epsilon_rich", &ref.Grammar{NTs: []string{"start", "x", "y"}, Terms: []string{"a", "b", "c"}, Prods: []ref.GProd{
			P("start", "x", "y", "c"), P("x", "a"), P("x"), P("y", "b"), P("y")}}, true, true},
		{"palindromes_not_lr", &ref.Grammar{NTs: []string{"start"}, Terms: []string{"a", "b"}, Prods: []ref.GProd{
			P("start", "a", "start", "a"), P("start", "b", "start", "b"), P("start")}}, false, false},
		{"nested_lists", &ref.Grammar{NTs: []string{"start", "l"}, Terms: []string{"(", ")", "a"}, Prods: []ref.GProd{
			P("start", "(", "l", ")"), P("start", "a"), P("l", "l", "start"), P("l")}}, true, true},
	}
}

type tb interface {
	Helper()
	Fatalf(string, ...any)
}

func TestTextbookFamilies(t *testing.T) {
	rec.Begin(t)
	rec.Rule(rule + ruleMore)
	if rec.Shard() != 0 {
		t.Skip("seed independent: shard 0 only")
	}
	for _, f := range families() {
		lalr, lr1, _, ok := f.g.Classify()
		if !ok || lalr != f.lalr || lr1 != f.lr1 {
			t.Fatalf("harness self-check: the reference classifier says lalr=%v lr1=%v for the textbook grammar %s (known: %v %v)", lalr, lr1, f.name, f.lalr, f.lr1)
		}
		src := f.g.Text("")
		nt, cls, err := checkPlain(f.g, src, rec.Pick(6, 7))
		rec.Case(src, true, "family_"+f.name, cls)
		_ = nt
		rec.Sample("family-"+cls, src)
		if err != nil {
			rec.Fail(t, "plain", input{Kind: "plain", Spec: src, Grammar: f.g, N: 6}, "%v", err)
		}
		if f.lalr && !f.g.Cyclic() {
			// directives have nothing to resolve in a grammar without conflicts (several fixed choices)
			for k := 0; k < 6; k++ {
				state := uint32(k*7919 + 17)
				dsrc := f.g.Text(irrelevantDirectives(f.g, func(n int) int {
					state = state*1664525 + 1013904223
					return int(state>>16) % n
				}))
				_, _, err := checkPlain(f.g, dsrc, rec.Pick(6, 7))
				rec.Case(dsrc, true, "family_"+f.name, "conflict_free_with_directives")
				if err != nil {
					rec.Fail(t, "plain", input{Kind: "plain", Spec: dsrc, Grammar: f.g, N: 6}, "%v", err)
				}
			}
		}
	}
}

// genGrammar constructs a reduced grammar: every non-terminal gets a terminating alternative and is linked from an
// earlier non-terminal.
func genGrammar(t *rapid.T) *ref.Grammar {
	if rapid.IntRange(0, 9).Draw(t, "template") == 0 {
		// LR(1)-but-not-LALR(1) template with renamed terminals and an optional extra production
		ts := rapid.Permutation([]string{"a", "b", "c", "d", "e"}).Draw(t, "names")
		g := &ref.Grammar{NTs: []string{"start", "x", "y"}, Terms: []string{"a", "b", "c", "d", "e"}, Prods: []ref.GProd{
			P("start", ts[0], "x", ts[3]), P("start", ts[1], "y", ts[3]), P("start", ts[0], "y", ts[4]), P("start", ts[1], "x", ts[4]), P("x", ts[2]), P("y", ts[2])}}
		if rapid.Bool().Draw(t, "extra") {
			g.Prods = append(g.Prods, P("x", ts[2], ts[2]), P("y", ts[2], ts[2]))
		}
		sort.Strings(g.Terms)
		return g
	}
	nnt := rapid.IntRange(1, 4).Draw(t, "nnt")
	g := &ref.Grammar{NTs: []string{"start", "x", "y", "z"}[:nnt], Terms: []string{"a", "b", "c"}[:rapid.IntRange(2, 3).Draw(t, "nterm")]}
	syms := append(append([]string{}, g.NTs...), g.Terms...)
	seen := map[string]bool{}
	add := func(head string, body []string) {
		k := head + ":" + strings.Join(body, " ")
		if !seen[k] && len(g.Prods) < 8 {
			seen[k] = true
			g.Prods = append(g.Prods, ref.GProd{Head: head, Body: body})
		}
	}
	for i, n := range g.NTs {
		// terminating alternative
		l := rapid.IntRange(0, 2).Draw(t, "tlen")
		body := make([]string, l)
		for j := range body {
			body[j] = rapid.SampledFrom(g.Terms).Draw(t, "ts")
		}
		add(n, body)
		// link from an earlier non-terminal
		if i > 0 {
			from := g.NTs[rapid.IntRange(0, i-1).Draw(t, "from")]
			var lb []string
			if rapid.Bool().Draw(t, "pre") {
				lb = append(lb, rapid.SampledFrom(g.Terms).Draw(t, "lt"))
			}
			lb = append(lb, n)
			if rapid.Bool().Draw(t, "post") {
				lb = append(lb, rapid.SampledFrom(syms).Draw(t, "ls"))
			}
			add(from, lb)
		}
	}
	for k, extra := 0, rapid.IntRange(0, 3).Draw(t, "extra"); k < extra; k++ {
		head := rapid.SampledFrom(g.NTs).Draw(t, "head")
		l := rapid.IntRange(1, 3).Draw(t, "len")
		body := make([]string, l)
		for j := range body {
			body[j] = rapid.SampledFrom(syms).Draw(t, "s")
		}
		add(head, body)
	}
	return g
}

func TestRandomReducedGrammars(t *testing.T) {
	rec.Rule(rule + ruleMore)
	cyclicListed := rec.Listed(cyclicKey)
	if kernelTolerated() {
		rec.Assume("listed finding lalr-kernel-superset (dependency): grammars in which the LR(0) kernel of one state is a proper subset of another state's kernel are not checked (counted as excluded_known_kernel_subset)")
	}
	if cyclicListed {
		probeCyclic()
		rec.Assume("listed finding cyclic-grammar-panic (dependency): grammars in which a non-terminal derives itself are not submitted to LALRParsingTable (counted as excluded_known_cyclic)")
	}
	rec.Check(t, 300, 15000, func(t *rapid.T) {
		g := genGrammar(t)
		if !g.Reduced() {
			t.Fatalf("harness self-check: constructed grammar is not reduced: %v", g.Prods)
		}
		if g.Cyclic() && cyclicListed {
			rec.Count("excluded_known_cyclic", 1)
			return
		}
		if g.KernelSubsetHazard() && kernelTolerated() {
			rec.Count("excluded_known_kernel_subset", 1)
			return
		}
		src := g.Text("")
		nt, cls, err := checkPlain(g, src, rec.Pick(6, 7))
		rec.Case(src, nt, cls)
		rec.Sample("random-"+cls, src)
		if err != nil {
			rec.Fail(t, "plain", input{Kind: "plain", Spec: src, Grammar: g, N: rec.Pick(6, 7)}, "%v", err)
		}
		if cls == "lalr" && rapid.Bool().Draw(t, "withDirectives") {
			dsrc := g.Text(irrelevantDirectives(g, func(n int) int { return rapid.IntRange(0, n-1).Draw(t, "choice") }))
			_, _, err := checkPlain(g, dsrc, rec.Pick(6, 7))
			rec.Case(dsrc, true, "conflict_free_with_directives")
			if err != nil {
				rec.Fail(t, "plain", input{Kind: "plain", Spec: dsrc, Grammar: g, N: rec.Pick(6, 7)}, "%v", err)
			}
		}
	})
}

// ---------- EBNF grammars, end to end ----------

// derived returns the grammar emerge derived from a specification as a plain grammar of the reference model.
func derived(sp *spec.Spec) *ref.Grammar {
	g := &ref.Grammar{}
	for n := range sp.Grammar.NonTerminals.All() {
		g.NTs = append(g.NTs, string(n))
	}
	sort.Strings(g.NTs)
	for a := range sp.Grammar.Terminals.All() {
		g.Terms = append(g.Terms, string(a))
	}
	sort.Strings(g.Terms)
	for p := range sp.Grammar.Productions.All() {
		gp := ref.GProd{Head: string(p.Head), Body: []string{}}
		for _, s := range p.Body {
			gp.Body = append(gp.Body, s.Name())
		}
		g.Prods = append(g.Prods, gp)
	}
	sort.Slice(g.Prods, func(i, j int) bool {
		return g.Prods[i].Head+"\x00"+strings.Join(g.Prods[i].Body, " ") < g.Prods[j].Head+"\x00"+strings.Join(g.Prods[j].Body, " ")
	})
	return g
}

// checkEBNF: specifications that use the EBNF operators.  Whether the table is handed out is decided by the reference
// construction on the derived grammar; what the table accepts is compared with the sentences the EBNF text denotes
// (computed from the model of the text, not from the derived grammar).
func checkEBNF(m *ref.SpecModel, src string, n int, cyclicListed bool) (cls string, nontrivial bool, err error) {
	var sp *spec.Spec
	var perr error
	if p := rec.Guard(func() { sp, perr = spec.Parse("t.ebnf", ref.Source(src)) }); p != nil {
		return "panic", false, fmt.Errorf("%v\nspecification:\n%s", p, src)
	}
	if perr != nil {
		return "rejected_at_parse", false, fmt.Errorf("well-formed specification rejected: %v\nspecification:\n%s", perr, src)
	}
	g := derived(sp)
	L := ref.ModelLanguages(m.Rules(), n)["start"]
	// the grammar the table is built for must be the grammar of the text (otherwise a wrongly derived, ambiguous
	// grammar would merely count as "conflicting")
	if w, inText, bad := L.Diff(ref.CFGLanguages(g.CFG(), n)["start"]); bad {
		return "ebnf_derivation", true, fmt.Errorf("the sentence [%s] is denoted by the EBNF text: %v, but generated by the grammar the table is built for: %v\nspecification:\n%s", ref.Show(w), inText, !inText, src)
	}
	switch {
	case g.HasUnproductive():
		return "excluded_unproductive", false, nil
	case !g.Reduced():
		return "excluded_not_reduced", false, nil
	case g.Cyclic() && cyclicListed:
		return "excluded_known_cyclic", false, nil
	case g.KernelSubsetHazard() && kernelTolerated():
		return "excluded_known_kernel_subset", false, nil
	}
	lalr, _, conflicts, ok := g.Classify()
	if !ok {
		return "too_large", false, nil
	}
	var T *lr.ParsingTable
	var terr error
	var twice error
	if p := rec.Guard(func() { T, terr, twice = tableOf(sp, src) }); p != nil {
		return "panic", false, fmt.Errorf("%v\nspecification:\n%s", p, src)
	}
	if twice != nil {
		return "asked_twice", false, twice
	}
	if lalr && terr != nil {
		return "ebnf_lalr", false, fmt.Errorf("the derived grammar is LALR(1), but the table is refused: %v\nspecification:\n%s", terr, src)
	}
	if !lalr && terr == nil {
		return "ebnf_conflicting", true, fmt.Errorf("the derived grammar has LALR(1) conflicts (e.g. on %q: %v) and there are no directives, but a table is handed out\nspecification:\n%s", conflicts[0].Terminal, conflicts[0].Actions, src)
	}
	if terr != nil {
		return "ebnf_conflicting", true, nil
	}
	ops := false
	for _, r := range m.Rules() {
		r.RHS.Walk(func(x *ref.RHS) {
			if x.K == "opt" || x.K == "star" || x.K == "plus" || x.K == "grp" {
				ops = true
			}
		})
	}
	for _, w := range ref.AllStrings(g.Terms, n) {
		acc, _, derr := drive(T, w, nil)
		if derr != nil {
			return "ebnf_lalr", ops, fmt.Errorf("%v\nspecification:\n%s", derr, src)
		}
		if acc != L[ref.Word(w)] {
			return "ebnf_lalr", ops, fmt.Errorf("the sentence [%s] is denoted by the EBNF text: %v, but the table accepts it: %v\nspecification:\n%s", strings.Join(w, " "), L[ref.Word(w)], acc, src)
		}
	}
	return "ebnf_lalr", ops, nil
}

func cloneRHS(r *ref.RHS) *ref.RHS {
	c := &ref.RHS{K: r.K, Name: r.Name}
	for _, s := range r.Subs {
		c.Subs = append(c.Subs, cloneRHS(s))
	}
	return c
}

// genEBNF draws a specification whose rules are all reachable and productive by construction: the rules x and y use
// literals only, start uses literals, x and y; every bracket operator occurs, often several times on similar operands.
func genEBNF(t *rapid.T) *ref.SpecModel {
	lits := rapid.SampledFrom([][]string{{"a", "b", "c"}, {"a", "b", "c"}, {"{", "}", "z"}, {"(", ")", "z"}, {"[", "]", "z"}, {"<", ">", "="}, {"+", "-", "*"}, {"if", "else", ";"}}).Draw(t, "literals")
	var operands []*ref.RHS
	var rhs func(depth int, nts []string) *ref.RHS
	rhs = func(depth int, nts []string) *ref.RHS {
		k := rapid.IntRange(0, 9).Draw(t, "k")
		if depth <= 0 {
			k = 0
		}
		switch {
		case k <= 2:
			if len(nts) > 0 && rapid.IntRange(0, 2).Draw(t, "useNT") == 0 {
				return &ref.RHS{K: "nt", Name: rapid.SampledFrom(nts).Draw(t, "nt")}
			}
			return &ref.RHS{K: "str", Name: rapid.SampledFrom(lits).Draw(t, "lit")}
		case k == 3:
			r := &ref.RHS{K: "cat"}
			for i := 0; i < 2; i++ {
				s := rhs(depth-1, nts)
				switch s.K {
				case "cat":
					r.Subs = append(r.Subs, s.Subs...)
				case "alt":
					r.Subs = append(r.Subs, &ref.RHS{K: "grp", Subs: []*ref.RHS{s}})
				default:
					r.Subs = append(r.Subs, s)
				}
			}
			return r
		case k == 4:
			r := &ref.RHS{K: "alt"}
			for i, n := 0, rapid.IntRange(2, 3).Draw(t, "alts"); i < n; i++ {
				s := rhs(depth-1, nts)
				if s.K == "alt" {
					for _, x := range s.Subs {
						if x.K != "empty" {
							r.Subs = append(r.Subs, x)
						}
					}
				} else {
					r.Subs = append(r.Subs, s)
				}
			}
			if rapid.IntRange(0, 3).Draw(t, "trail") == 0 {
				r.Subs = append(r.Subs, &ref.RHS{K: "empty"})
			}
			return r
		default:
			kind := rapid.SampledFrom([]string{"grp", "opt", "star", "plus", "plus"}).Draw(t, "op")
			var child *ref.RHS
			if len(operands) > 0 && rapid.Bool().Draw(t, "sameOperand") {
				child = cloneRHS(operands[rapid.IntRange(0, len(operands)-1).Draw(t, "oi")]) // the same operand under another operator
			} else {
				child = rhs(depth-1, nts)
				operands = append(operands, child)
			}
			return &ref.RHS{K: kind, Subs: []*ref.RHS{child}}
		}
	}
	m := &ref.SpecModel{Name: "g", NameSemi: true}
	others := []string{"x", "y"}[:rapid.IntRange(0, 2).Draw(t, "rules")]
	start := rhs(3, others)
	if rapid.IntRange(0, 2).Draw(t, "sharedOperandShape") == 0 {
		// one operand under two or three different operators, separated by literals: ( X ) "b" [ X ]
		operand := rhs(rapid.IntRange(0, 2).Draw(t, "operandDepth"), others)
		kinds := rapid.Permutation([]string{"grp", "opt", "star", "plus"}).Draw(t, "kinds")[:rapid.IntRange(2, 3).Draw(t, "nk")]
		join := rapid.SampledFrom([]string{"cat", "alt"}).Draw(t, "join")
		start = &ref.RHS{K: join}
		for i, k := range kinds {
			item := &ref.RHS{K: k, Subs: []*ref.RHS{cloneRHS(operand)}}
			if join == "cat" && i > 0 && rapid.Bool().Draw(t, "separator") {
				start.Subs = append(start.Subs, &ref.RHS{K: "str", Name: rapid.SampledFrom(lits).Draw(t, "sepLit")})
			}
			if join == "alt" && rapid.Bool().Draw(t, "marker") {
				item = &ref.RHS{K: "cat", Subs: []*ref.RHS{{K: "str", Name: lits[i]}, item}}
			}
			start.Subs = append(start.Subs, item)
		}
	}
	if rapid.IntRange(0, 5).Draw(t, "sameSymbolsShape") == 0 {
		// the same operator over a sequence and over an alternation of the same symbols: [ "a" "b" ] ... [ "a" | "b" ]
		k := rapid.SampledFrom([]string{"grp", "opt", "star", "plus"}).Draw(t, "sameSymbolsOp")
		a, b := &ref.RHS{K: "str", Name: lits[0]}, &ref.RHS{K: "str", Name: lits[1]}
		seq := &ref.RHS{K: k, Subs: []*ref.RHS{{K: "cat", Subs: []*ref.RHS{cloneRHS(a), cloneRHS(b)}}}}
		alt := &ref.RHS{K: k, Subs: []*ref.RHS{{K: "alt", Subs: []*ref.RHS{cloneRHS(a), cloneRHS(b)}}}}
		parts := []*ref.RHS{{K: "str", Name: lits[2]}, seq, {K: "str", Name: lits[2]}, alt, {K: "str", Name: lits[2]}}
		if rapid.Bool().Draw(t, "altFirst") {
			parts[1], parts[3] = alt, seq
		}
		start = &ref.RHS{K: "cat", Subs: parts}
	}
	used := map[string]bool{}
	start.Walk(func(x *ref.RHS) {
		if x.K == "nt" {
			used[x.Name] = true
		}
	})
	m.Decls = append(m.Decls, &ref.Decl{Kind: "rule", Name: "start", Semi: true, RHS: start})
	for _, name := range others {
		if used[name] {
			operands = nil // the bodies of x and y use literals only: no operand of start (which may mention x or y) is reused
			m.Decls = append(m.Decls, &ref.Decl{Kind: "rule", Name: name, Semi: true, RHS: rhs(2, nil)})
		}
	}
	return m
}

func TestEBNFGrammarsEndToEnd(t *testing.T) {
	rec.Rule(rule + ruleMore)
	cyclicListed := rec.Listed(cyclicKey)
	kernelTolerated()
	opts := gen.SpecOpts{MaxRules: 2, Depth: 3, Literals: []string{"a", "b", "c"}}
	rec.Check(t, 1000, 30000, func(t *rapid.T) {
		var m *ref.SpecModel
		if rapid.IntRange(0, 3).Draw(t, "generator") == 0 {
			m = gen.Spec(t, opts)
		} else {
			m = genEBNF(t)
		}
		src := m.Text()
		if rapid.IntRange(0, 2).Draw(t, "drawnLayout") == 0 {
			// a drawn layout with comments between the tokens: the table is built for what the text says
			toks := m.Tokens()
			src, _ = ref.Render(toks, gen.Seps(t, toks))
		}
		n := rec.Pick(5, 6)
		cls, nt, err := checkEBNF(m, src, n, cyclicListed)
		if strings.HasPrefix(cls, "excluded") || cls == "too_large" {
			rec.Count(cls, 1)
			return
		}
		byOperand := map[string]map[string]bool{}
		for _, r := range m.Rules() {
			r.RHS.Walk(func(x *ref.RHS) {
				if x.K == "opt" || x.K == "star" || x.K == "plus" || x.K == "grp" {
					b, _ := json.Marshal(x.Subs[0])
					if byOperand[string(b)] == nil {
						byOperand[string(b)] = map[string]bool{}
					}
					byOperand[string(b)][x.K] = true
				}
			})
		}
		classes := []string{cls}
		for _, ks := range byOperand {
			if ks["grp"] && ks["opt"] {
				classes = append(classes, "same_operand_grouped_and_optional")
			}
			if len(ks) >= 2 {
				classes = append(classes, "same_operand_under_two_operators")
			}
		}
		rec.Case(src, nt, classes...)
		if nt {
			rec.Sample(cls, src)
		}
		if err != nil {
			rec.Fail(t, "ebnf", input{Kind: "ebnf", Spec: src, Model: m, N: n}, "%v", err)
		}
	})
}

func probeCyclic() {
	// the probe is schedule/iteration-order dependent: try a few times, announce when it reproduces
	for i := 0; i < 30; i++ {
		_, _, perr, _, panicked := build("grammar g;\nstart = start | ;\n")
		if perr == nil && panicked != nil {
			rec.Announce(cyclicKey)
			return
		}
	}
}

// ---------- operator grammars ----------

type opGrammar struct {
	Binary   []string
	Prefix   []string
	Levels   [][]string // each level: assoc followed by operators; earlier level binds tighter
	Missing  string     // operator left without a directive ("" = fully declared)
	DupInLvl bool
	Grouped  bool // levels with two binary operators are written as one grouped production with a rule handle
	// where the directives stand: 0 before the rule, 1 after it, 2 the first level before and the others after
	DirectivesAt int
	// UnaryAt >= 0: the prefix operator Prefix[0] has the symbol of a binary operator and is also named by the rule handle
	// <start = "op" start> in a level of its own, inserted before Levels[UnaryAt].  Documented: a production with a
	// terminal inherits the precedence of its leftmost terminal, so this level must change nothing.
	UnaryAt    int
	UnaryAssoc string
}

const unaryMark = "\x00unary"

// allLevels returns the levels in source order, the level of the unary rule handle marked by unaryMark.
func (o *opGrammar) allLevels() [][]string {
	if o.UnaryAt < 0 || len(o.Prefix) == 0 {
		return o.Levels
	}
	at := o.UnaryAt
	if at > len(o.Levels) {
		at = len(o.Levels)
	}
	out := append([][]string{}, o.Levels[:at]...)
	out = append(out, []string{o.UnaryAssoc, unaryMark})
	return append(out, o.Levels[at:]...)
}

func (o *opGrammar) text() string {
	var b, head strings.Builder
	head.WriteString("grammar ops;\n")
	var levelLines []string
	isBinary := map[string]bool{}
	for _, op := range o.Binary {
		isBinary[op] = true
	}
	grouped := map[string]bool{}
	var alts []string
	for _, lvl := range o.allLevels() {
		b.WriteString(lvl[0])
		if len(lvl) == 2 && lvl[1] == unaryMark {
			fmt.Fprintf(&b, " <start = %q start>", o.Prefix[0])
			levelLines = append(levelLines, b.String()+" ;\n")
			b.Reset()
			continue
		}
		var bins []string
		for _, op := range lvl[1:] {
			if isBinary[op] {
				bins = append(bins, op)
			}
		}
		if o.Grouped && len(bins) == 2 {
			// the level's binary operators are written as one grouped production; the rule handle lists the
			// alternatives in the opposite order
			fmt.Fprintf(&b, " <start = start (%q | %q) start>", bins[1], bins[0])
			alts = append(alts, fmt.Sprintf("start (%q | %q) start", bins[0], bins[1]))
			grouped[bins[0]], grouped[bins[1]] = true, true
		}
		for _, op := range lvl[1:] {
			fmt.Fprintf(&b, " %q", op)
		}
		if o.DupInLvl && len(lvl) > 1 {
			fmt.Fprintf(&b, " %q", lvl[1])
		}
		levelLines = append(levelLines, b.String()+" ;\n")
		b.Reset()
	}
	for _, op := range o.Binary {
		if !grouped[op] {
			alts = append(alts, fmt.Sprintf("start %q start", op))
		}
	}
	for _, op := range o.Prefix {
		alts = append(alts, fmt.Sprintf("%q start", op))
	}
	alts = append(alts, `"(" start ")"`, `"n"`)
	ruleLine := fmt.Sprintf("start = %s;\n", strings.Join(alts, " | "))
	switch {
	case o.DirectivesAt == 1:
		return head.String() + ruleLine + strings.Join(levelLines, "")
	case o.DirectivesAt == 2 && len(levelLines) > 0:
		return head.String() + levelLines[0] + ruleLine + strings.Join(levelLines[1:], "")
	}
	return head.String() + strings.Join(levelLines, "") + ruleLine
}

func (o *opGrammar) infos() (binary, prefix map[string]ref.OpInfo) {
	binary, prefix = map[string]ref.OpInfo{}, map[string]ref.OpInfo{}
	levels := o.allLevels()
	n := len(levels)
	for i, lvl := range levels {
		for _, op := range lvl[1:] {
			info := ref.OpInfo{Prec: n - i, Right: lvl[0] == "@right"}
			if op == unaryMark {
				// documented: a production that contains a terminal inherits the precedence of its leftmost terminal;
				// a rule handle can assign one only to productions without terminals.  The level changes nothing.
				continue
			}
			for _, b := range o.Binary {
				if b == op {
					binary[op] = info
				}
			}
			for pi, p := range o.Prefix {
				if p == op {
					_ = pi
					prefix[op] = info
				}
			}
		}
	}
	return
}

func exprStrings(terms []string, n int) [][]string { return ref.AllStrings(terms, n) }

func checkOperator(o *opGrammar, src string, n int) error {
	_, T, perr, terr, panicked := build(src)
	if panicked != nil {
		return fmt.Errorf("%v\nspecification:\n%s", panicked, src)
	}
	if perr != nil {
		return fmt.Errorf("well-formed specification rejected: %v\nspecification:\n%s", perr, src)
	}
	if o.Missing != "" {
		if terr == nil {
			return fmt.Errorf("operator %q has no directive, so the conflict of 'start %s start' with itself is unresolved, but the grammar is accepted\nspecification:\n%s", o.Missing, o.Missing, src)
		}
		if !strings.Contains(strings.ToLower(terr.Error()), "conflict") || !strings.Contains(terr.Error(), fmt.Sprintf("%q", o.Missing)) {
			return fmt.Errorf("the grammar is rejected, but the report does not name the conflict on %q: %v\nspecification:\n%s", o.Missing, terr, src)
		}
		return nil
	}
	if terr != nil {
		return fmt.Errorf("every ambiguity is covered by @left/@right directives, but the grammar is rejected: %v\nspecification:\n%s", terr, src)
	}
	binary, prefix := o.infos()
	terms := append(append(append([]string{}, o.Binary...), o.Prefix...), "(", ")", "n")
	for _, w := range exprStrings(terms, n) {
		want, ok := ref.ParseExpr(w, binary, prefix, []string{"n"})
		acc, got, derr := drive(T, w, renderExpr)
		if derr != nil {
			return fmt.Errorf("%v\nspecification:\n%s", derr, src)
		}
		if acc != ok {
			return fmt.Errorf("the expression [%s] is a sentence: %v, but the table accepts it: %v\nspecification:\n%s", strings.Join(w, " "), ok, acc, src)
		}
		if acc {
			if got != want {
				return fmt.Errorf("the expression [%s] is parsed as %s, the declared precedence (earlier line binds tighter) and associativity dictate %s\nspecification:\n%s", strings.Join(w, " "), got, want, src)
			}
		}
	}
	return nil
}

func genOps(t *rapid.T) *opGrammar {
	pool := rapid.Permutation([]string{"+", "-", "*", "/", "^", "&"}).Draw(t, "ops")
	o := &opGrammar{Binary: pool[:rapid.IntRange(1, 4).Draw(t, "nbin")]}
	np := rapid.IntRange(0, 2).Draw(t, "npre")
	o.Prefix = []string{"!", "~"}[:np]
	if np > 0 && rapid.IntRange(0, 3).Draw(t, "sharedSymbol") == 0 {
		o.Prefix[0] = o.Binary[0] // the same symbol as prefix and infix operator: both productions start... the infix one has it second, leftmost terminal is still the operator
	}
	all := append([]string{}, o.Binary...)
	for _, p := range o.Prefix {
		dup := false
		for _, b := range o.Binary {
			dup = dup || b == p
		}
		if !dup {
			all = append(all, p)
		}
	}
	all = rapid.Permutation(all).Draw(t, "order")
	if rapid.IntRange(0, 4).Draw(t, "undeclared") == 0 {
		o.Missing = o.Binary[rapid.IntRange(0, len(o.Binary)-1).Draw(t, "missing")]
	}
	for i := 0; i < len(all); {
		k := rapid.IntRange(1, 2).Draw(t, "perLevel")
		if i+k > len(all) {
			k = len(all) - i
		}
		lvl := []string{rapid.SampledFrom([]string{"@left", "@right"}).Draw(t, "assoc")}
		for _, op := range all[i : i+k] {
			if op != o.Missing {
				lvl = append(lvl, op)
			}
		}
		if len(lvl) > 1 {
			o.Levels = append(o.Levels, lvl)
		}
		i += k
	}
	o.UnaryAt = -1
	if np > 0 && o.Prefix[0] == o.Binary[0] && o.Missing != o.Binary[0] && rapid.Bool().Draw(t, "unaryHandle") {
		o.UnaryAt = rapid.IntRange(0, len(o.Levels)).Draw(t, "unaryAt")
		o.UnaryAssoc = rapid.SampledFrom([]string{"@left", "@right"}).Draw(t, "unaryAssoc")
	}
	o.DupInLvl = rapid.IntRange(0, 5).Draw(t, "dup") == 0
	o.Grouped = rapid.IntRange(0, 2).Draw(t, "grouped") == 0
	o.DirectivesAt = rapid.SampledFrom([]int{0, 0, 1, 2}).Draw(t, "directivesAt")
	return o
}

func TestOperatorGrammars(t *testing.T) {
	rec.Rule(rule + ruleMore)
	rec.Assume("@none levels are not generated for binary operators (the dependency reports a same-level @none clash as unresolved, which the property allows); rule handles are used for grouped operator levels only (productions without terminals, the documented use)")
	rec.Check(t, 120, 5000, func(t *rapid.T) {
		o := genOps(t)
		src := o.text()
		cls := []string{fmt.Sprintf("levels_%d", len(o.Levels))}
		if o.Missing != "" {
			cls = append(cls, "undeclared_operator")
		}
		if len(o.Prefix) > 0 {
			cls = append(cls, "prefix_operator")
		}
		if o.Grouped && strings.Contains(src, "<start") {
			cls = append(cls, "grouped_level_with_rule_handle")
		}
		if o.DirectivesAt != 0 {
			cls = append(cls, "directives_after_the_rule")
		}
		if o.UnaryAt >= 0 {
			cls = append(cls, "unary_operator_level_by_rule_handle")
		}
		rec.Case(src, len(o.Levels) >= 2 || o.Missing != "", cls...)
		rec.Sample("ops-"+strings.Join(cls, ","), src)
		n := 5
		if len(o.Binary)+len(o.Prefix) <= 3 {
			n = 6
		}
		if rec.Thorough() && len(o.Binary)+len(o.Prefix) <= 4 {
			n++
		}
		if err := checkOperator(o, src, n); err != nil {
			binary, prefix := o.infos()
			rec.Fail(t, "operator", input{Kind: "operator", Spec: src, Binary: binary, Prefix: prefix, Missing: o.Missing, N: n}, "%v", err)
		}
	})
}

// ---------- fixed families whose ambiguity is resolved by directives ----------

// danglingElse: "i" s | "i" s "e" s | "o" with @right "i" "e": the else belongs to the nearest if.
func parseIf(toks []string, i int) (string, int, bool) {
	if i >= len(toks) {
		return "", i, false
	}
	switch toks[i] {
	case "o":
		return "o", i + 1, true
	case "i":
		body, j, ok := parseIf(toks, i+1)
		if !ok {
			return "", j, false
		}
		if j < len(toks) && toks[j] == "e" {
			els, k, ok := parseIf(toks, j+1)
			if !ok {
				return "", k, false
			}
			return "[i " + body + " e " + els + "]", k, true
		}
		return "[i " + body + "]", j, true
	}
	return "", i, false
}

// application: juxtaposition is left associative and binds tighter than "+" (left associative).
func parseApp(toks []string) (string, bool) {
	i := 0
	var sum func() (string, bool)
	primary := func() (string, bool) {
		if i < len(toks) && toks[i] == "n" {
			i++
			return "n", true
		}
		if i < len(toks) && toks[i] == "(" {
			i++
			x, ok := sum()
			if !ok || i >= len(toks) || toks[i] != ")" {
				return "", false
			}
			i++
			return "(" + x + ")", true
		}
		return "", false
	}
	app := func() (string, bool) {
		left, ok := primary()
		if !ok {
			return "", false
		}
		for i < len(toks) && (toks[i] == "n" || toks[i] == "(") {
			right, ok := primary()
			if !ok {
				return "", false
			}
			left = "[" + left + " " + right + "]"
		}
		return left, true
	}
	sum = func() (string, bool) {
		left, ok := app()
		if !ok {
			return "", false
		}
		for i < len(toks) && toks[i] == "+" {
			i++
			right, ok := app()
			if !ok {
				return "", false
			}
			left = "[" + left + " + " + right + "]"
		}
		return left, true
	}
	t, ok := sum()
	return t, ok && i == len(toks)
}

func TestDirectiveResolvedFamilies(t *testing.T) {
	rec.Begin(t)
	rec.Rule(rule + ruleMore)
	if rec.Shard() != 0 {
		t.Skip("seed independent: shard 0 only")
	}
	type fam struct {
		name, src string
		terms     []string
		n         int
		want      func([]string) (string, bool)
		langOnly  bool // compare acceptance only (the rendering of the oracle belongs to another form of the grammar)
	}
	fams := []fam{
		{"dangling_else_resolved", "grammar g;\n@right \"i\" \"e\"\nstart = \"i\" start | \"i\" start \"e\" start | \"o\";\n", []string{"i", "e", "o"}, 8,
			func(w []string) (string, bool) { s, j, ok := parseIf(w, 0); return s, ok && j == len(w) }, false},
		{"juxtaposition_with_rule_handle", "grammar g;\n@left <start = start start>\n@left \"n\" \"(\"\n@left \"+\"\nstart = start start | start \"+\" start | \"(\" start \")\" | \"n\";\n", []string{"n", "+", "(", ")"}, 7, parseApp, false},
		// the else part as a rule of its own with an empty alternative: the conflict is between shifting "e" and reducing
		// the empty production, which can get its precedence through a rule handle only
		{"dangling_else_with_empty_else_part", "grammar g;\n@right \"e\" <ep = >\nstart = \"i\" start ep | \"o\";\nep = \"e\" start | ;\n", []string{"i", "e", "o"}, 8,
			func(w []string) (string, bool) { s, j, ok := parseIf(w, 0); return s, ok && j == len(w) }, true},
		{"dangling_else_with_empty_else_part_directive_last", "grammar g;\nstart = \"i\" start ep | \"o\";\nep = \"e\" start | ;\n@right <ep = > \"e\";\n", []string{"i", "e", "o"}, 8,
			func(w []string) (string, bool) { s, j, ok := parseIf(w, 0); return s, ok && j == len(w) }, true},
	}
	for _, f := range fams {
		_, T, perr, terr, panicked := build(f.src)
		rec.Case(f.src, true, "family_"+f.name)
		rec.Sample("family-"+f.name, f.src)
		if panicked != nil || perr != nil {
			rec.Fail(t, "family", input{Kind: "family", Spec: f.src}, "%v %v\nspecification:\n%s", panicked, perr, f.src)
		}
		if terr != nil {
			rec.Fail(t, "family", input{Kind: "family", Spec: f.src}, "every ambiguity of %s is covered by directives, but the grammar is rejected: %v\nspecification:\n%s", f.name, terr, f.src)
		}
		for _, w := range ref.AllStrings(f.terms, f.n) {
			want, ok := f.want(w)
			acc, got, derr := drive(T, w, renderExpr)
			if derr != nil {
				rec.Fail(t, "family", input{Kind: "family", Spec: f.src}, "%v\nspecification:\n%s", derr, f.src)
			}
			if acc != ok {
				rec.Fail(t, "family", input{Kind: "family", Spec: f.src}, "[%s] is a sentence: %v, the table accepts it: %v\nspecification:\n%s", strings.Join(w, " "), ok, acc, f.src)
			}
			if acc && got != want && !f.langOnly {
				rec.Fail(t, "family", input{Kind: "family", Spec: f.src}, "[%s] is parsed as %s, the directives dictate %s\nspecification:\n%s", strings.Join(w, " "), got, want, f.src)
			}
		}
	}
}

// ---------- CLI route ----------

func TestCLIRejectsUnresolvedConflicts(t *testing.T) {
	rec.Begin(t)
	if rec.Shard() != 0 {
		t.Skip("shard 0 only")
	}
	bin := os.Getenv("VERIF_EMERGE_BIN")
	if _, err := os.Stat(bin); err != nil {
		t.Skip("emerge binary not built")
	}
	for _, f := range families() {
		dir := t.TempDir()
		file := filepath.Join(dir, "g.ebnf")
		if err := os.WriteFile(file, []byte(f.g.Text("")), 0o644); err != nil {
			t.Fatal(err)
		}
		cmd := exec.Command(bin, "-out", dir, file)
		cmd.Dir = dir
		out, err := cmd.CombinedOutput()
		code := 0
		if ee, ok := err.(*exec.ExitError); ok {
			code = ee.ExitCode()
		} else if err != nil {
			t.Fatalf("cannot run emerge: %v", err)
		}
		rec.Case("cli:"+f.name, !f.lalr, "cli")
		if f.lalr && code != 0 {
			rec.Fail(t, "cli", map[string]string{"family": f.name, "spec": f.g.Text("")}, "emerge exits with status %d for the LALR(1) grammar %s:\n%s", code, f.name, out)
		}
		if !f.lalr && (code == 0 || !strings.Contains(strings.ToLower(string(out)), "conflict")) {
			rec.Fail(t, "cli", map[string]string{"family": f.name, "spec": f.g.Text("")}, "emerge exits with status %d and no conflict report for the non-LALR(1) grammar %s:\n%s", code, f.name, out)
		}
	}
}

func TestReplay(t *testing.T) {
	if !rec.IsReplay() {
		t.Skip("not in replay mode")
	}
	kind, raw, _ := rec.Replay()
	var in input
	if err := json.Unmarshal(raw, &in); err != nil {
		t.Fatal(err)
	}
	switch kind {
	case "plain":
		if _, _, err := checkPlain(in.Grammar, in.Spec, in.N); err != nil {
			rec.Fail(t, kind, in, "%v", err)
		}
	case "ebnf":
		if _, _, err := checkEBNF(in.Model, in.Spec, in.N, rec.Listed(cyclicKey)); err != nil {
			rec.Fail(t, kind, in, "%v", err)
		}
	default:
		t.Skipf("replay kind %q: re-run the check with the same VERIF_SEED", kind)
	}
}
